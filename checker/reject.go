package main

// Rules added after held-out round 5:
//   REJECT-ONLY  every error a parser constructs is constructed behind one of its documented rejection reasons
//   CLOSE        an opened file is closed on every path that leaves the function after a successful open
//   STACK-OPS    every change of the explicit traversal stack is the push, the advance or the pop (universal form of STEP)

import (
	"fmt"
	"go/token"
	"go/types"
	"sort"
	"strings"

	"golang.org/x/tools/go/ssa"
)

// ---------------------------------------------------------------------------------------------------------------
// REJECT-ONLY

// edgeLit is one branch edge: cond holds (pos) or fails (!pos) when the edge is taken.
type edgeLit struct {
	cond ssa.Value
	pos  bool
}

// rejectCfg describes the documented rejection reasons of one parser family.
type rejectCfg struct {
	rule    string
	errFrom map[string]bool // external functions whose error is a documented reason
	// lit decides whether a branch edge is a documented reason; immediate: the edge enters the constructing block itself
	lit func(l edgeLit, immediate bool) (string, bool)
}

// cmpCanon normalises an integer comparison edge `x op K` (K constant) to one of le/ge/eq/ne with its constant.
func cmpCanon(l edgeLit) (x ssa.Value, kind string, k int64, ok bool) {
	bo, isBin := l.cond.(*ssa.BinOp)
	if !isBin {
		return nil, "", 0, false
	}
	op := bo.Op
	var kv int64
	if c, okc := cInt(constVal(bo.Y)); okc && constVal(bo.X) == nil {
		x, kv = bo.X, c
	} else if c, okc := cInt(constVal(bo.X)); okc && constVal(bo.Y) == nil {
		x, kv = bo.Y, c
		switch op { // K op x  ==  x op' K
		case token.LSS:
			op = token.GTR
		case token.LEQ:
			op = token.GEQ
		case token.GTR:
			op = token.LSS
		case token.GEQ:
			op = token.LEQ
		}
	} else {
		return nil, "", 0, false
	}
	if !l.pos {
		switch op {
		case token.LSS:
			op = token.GEQ
		case token.LEQ:
			op = token.GTR
		case token.GTR:
			op = token.LEQ
		case token.GEQ:
			op = token.LSS
		case token.EQL:
			op = token.NEQ
		case token.NEQ:
			op = token.EQL
		}
	}
	switch op {
	case token.LSS:
		return x, "le", kv - 1, true
	case token.LEQ:
		return x, "le", kv, true
	case token.GTR:
		return x, "ge", kv + 1, true
	case token.GEQ:
		return x, "ge", kv, true
	case token.EQL:
		return x, "eq", kv, true
	case token.NEQ:
		return x, "ne", kv, true
	}
	return nil, "", 0, false
}

// lenOperand: v is len(X); returns X.
func lenOperand(v ssa.Value) ssa.Value {
	cl, ok := v.(*ssa.Call)
	if !ok {
		return nil
	}
	if b, ok := cl.Call.Value.(*ssa.Builtin); ok && b.Name() == "len" && len(cl.Call.Args) == 1 {
		return cl.Call.Args[0]
	}
	return nil
}

func isStringType(t types.Type) bool {
	b, ok := t.Underlying().(*types.Basic)
	return ok && b.Info()&types.IsString != 0
}

func isStringSlice(t types.Type) bool {
	s, ok := t.Underlying().(*types.Slice)
	return ok && isStringType(s.Elem())
}

// errCallOrigins resolves an error value to the calls it may come from (through phis, tuple extraction and local
// cells); nil constants are skipped; ok is false when some origin is not a call.
func errCallOrigins(v ssa.Value) (out []*ssa.Call, ok bool) {
	seen := map[ssa.Value]bool{}
	ok = true
	var walk func(v ssa.Value)
	walk = func(v ssa.Value) {
		if seen[v] {
			return
		}
		seen[v] = true
		switch x := v.(type) {
		case *ssa.Const:
			if !x.IsNil() {
				ok = false
			}
		case *ssa.Extract:
			walk(x.Tuple)
		case *ssa.Call:
			out = append(out, x)
		case *ssa.Phi:
			for _, e := range x.Edges {
				walk(e)
			}
		case *ssa.UnOp:
			if al, isAl := x.X.(*ssa.Alloc); isAl && x.Op == token.MUL {
				for _, ref := range *al.Referrers() {
					if st, isSt := ref.(*ssa.Store); isSt && st.Addr == ssa.Value(al) {
						walk(st.Val)
					}
				}
				return
			}
			ok = false
		default:
			ok = false
		}
	}
	walk(v)
	return out, ok
}

// errNonNilEdge: the edge says "err != nil" for an error value; returns that value.
func errNonNilEdge(l edgeLit) ssa.Value {
	bo, ok := l.cond.(*ssa.BinOp)
	if !ok || (bo.Op != token.NEQ && bo.Op != token.EQL) {
		return nil
	}
	if (bo.Op == token.NEQ) != l.pos {
		return nil
	}
	isNil := func(v ssa.Value) bool { k, ok := v.(*ssa.Const); return ok && k.IsNil() }
	var e ssa.Value
	switch {
	case isNil(bo.Y):
		e = bo.X
	case isNil(bo.X):
		e = bo.Y
	default:
		return nil
	}
	if !isErrorType(e.Type()) {
		return nil
	}
	return e
}

func isErrorType(t types.Type) bool {
	n, ok := t.(*types.Named)
	return ok && n.Obj().Pkg() == nil && n.Obj().Name() == "error"
}

// rejectFamily: root and the module functions it reaches that can return an error.
func rejectFamily(c *Ctx, root *ssa.Function) []*ssa.Function {
	seen := map[*ssa.Function]bool{}
	var out []*ssa.Function
	var visit func(f *ssa.Function)
	visit = func(f *ssa.Function) {
		if f == nil || seen[f] {
			return
		}
		seen[f] = true
		out = append(out, f)
		for _, g := range c.calleesIn(f) {
			if !c.inModule(g) || g.Blocks == nil {
				continue
			}
			res := g.Signature.Results()
			for i := 0; i < res.Len(); i++ {
				if isErrorType(res.At(i).Type()) {
					visit(g)
				}
			}
		}
	}
	visit(root)
	return out
}

func isErrConstructor(f *ssa.Function) bool {
	return fnIs(f, "fmt", "Errorf") || fnIs(f, "errors", "New")
}

// rulesRejectOnly: in the family of root, (a) every error constructed (fmt.Errorf / errors.New) is constructed only
// on paths that took a documented-reason edge, (b) every other error-returning call outside the module is one of the
// documented sources.
func rulesRejectOnly(c *Ctx, r *Report, root *ssa.Function, rootName string, cfg rejectCfg) int {
	if root == nil {
		r.undecided(cfg.rule, rootName, "anchor", "", "function not found")
		return 0
	}
	fam := rejectFamily(c, root)
	// error-building helpers (results: just an error, or values without one) reached from the family count too
	inFam := map[*ssa.Function]bool{}
	var all []*ssa.Function
	var add func(f *ssa.Function)
	add = func(f *ssa.Function) {
		if f == nil || inFam[f] || !c.inModule(f) || f.Blocks == nil {
			return
		}
		inFam[f] = true
		all = append(all, f)
		for _, h := range family(f)[1:] {
			inFam[h] = true
			all = append(all, h)
		}
	}
	for _, f := range fam {
		add(f)
	}
	for i := 0; i < len(all); i++ {
		for _, g := range c.calleesIn(all[i]) {
			hasCtor := false
			instrs(g, func(in ssa.Instruction) {
				if cl, ok := in.(*ssa.Call); ok && isErrConstructor(cl.Call.StaticCallee()) {
					hasCtor = true
				}
			})
			if hasCtor {
				add(g)
			}
		}
	}
	reasonOf := func(l edgeLit, immediate bool) (string, bool) {
		if e := errNonNilEdge(l); e != nil {
			calls, ok := errCallOrigins(e)
			if ok && len(calls) > 0 {
				var names []string
				for _, cl := range calls {
					g := cl.Call.StaticCallee()
					switch {
					case g != nil && cfg.errFrom[qname(g)]:
						names = append(names, qname(g))
					case g != nil && c.inModule(g):
						names = append(names, fname(g))
					default:
						ok = false
					}
				}
				if ok {
					sort.Strings(names)
					return "error of " + strings.Join(dedupe(names), "/"), true
				}
			}
		}
		return cfg.lit(l, immediate)
	}
	blockAccepted := func(target *ssa.BasicBlock) (bool, string) { return pathsAllTake(target, reasonOf) }
	// acceptedAt: the same for an instruction; for a helper without a reason of its own the question moves to every
	// one of its call sites in the family (two levels).
	var acceptedAt func(in ssa.Instruction, depth int) (bool, string)
	acceptedAt = func(in ssa.Instruction, depth int) (bool, string) {
		if ok, why := blockAccepted(in.Block()); ok {
			return true, why
		}
		g := in.Parent()
		if g == root || depth >= 2 {
			return false, ""
		}
		var sites []ssa.Instruction
		for _, f := range all {
			instrs(f, func(x ssa.Instruction) {
				if ci, ok := x.(ssa.CallInstruction); ok && ci.Common().StaticCallee() == g {
					sites = append(sites, x)
				}
			})
		}
		if len(sites) == 0 {
			return false, ""
		}
		var reasons []string
		for _, st := range sites {
			ok, why := acceptedAt(st, depth+1)
			if !ok {
				return false, ""
			}
			reasons = append(reasons, why)
		}
		sort.Strings(reasons)
		return true, "at every call of " + fname(g) + ": " + strings.Join(dedupe(reasons), " | ")
	}
	n := 0
	for _, h := range all {
		r.analysed(fname(h))
		instrs(h, func(in ssa.Instruction) {
			cl, ok := in.(*ssa.Call)
			if !ok {
				return
			}
			g := cl.Call.StaticCallee()
			if g == nil {
				return
			}
			if isErrConstructor(g) {
				n++
				ok, reason := acceptedAt(cl, 0)
				r.check(ok, cfg.rule, fname(h), "error constructed", c.pos(cl.Pos()),
					"constructed only behind a documented rejection reason: "+reason,
					"an error is constructed on a path that passes none of the documented rejection reasons: inputs the property requires to be accepted are rejected")
				return
			}
			if c.inModule(g) || g.Signature == nil {
				return
			}
			res := g.Signature.Results()
			retErr := false
			for i := 0; i < res.Len(); i++ {
				if isErrorType(res.At(i).Type()) {
					retErr = true
				}
			}
			if !retErr {
				return
			}
			n++
			r.check(cfg.errFrom[qname(g)], cfg.rule, fname(h), "error source "+qname(g), c.pos(cl.Pos()),
				"a documented source of rejections", "an error source outside the documented ones: its failures reject inputs the property requires to be accepted")
		})
	}
	return n
}

func dedupe(xs []string) []string {
	var out []string
	for i, x := range xs {
		if x == "" || (i > 0 && xs[i-1] == x) {
			continue
		}
		out = append(out, x)
	}
	return out
}

// negStringCaseEdge: the edge is the failing side of `x == "K"` (K a non-empty constant) and enters the block itself:
// the default arm of a switch over string constants.
func negStringCaseEdge(l edgeLit, immediate bool) bool {
	bo, ok := l.cond.(*ssa.BinOp)
	if !ok || !immediate {
		return false
	}
	if !((bo.Op == token.EQL && !l.pos) || (bo.Op == token.NEQ && l.pos)) {
		return false
	}
	for _, v := range []ssa.Value{bo.X, bo.Y} {
		if k, ok := v.(*ssa.Const); ok && k.Value != nil && isStringType(k.Type()) && len(constString(k)) > 0 {
			return true
		}
	}
	return false
}

func constString(k *ssa.Const) string {
	s := k.Value.ExactString()
	if len(s) >= 2 && s[0] == '"' {
		return s[1 : len(s)-1]
	}
	return s
}

// samRejectCfg: the documented reasons a SAM line is rejected.
func samRejectCfg() rejectCfg {
	return rejectCfg{
		rule: "REJECT-ONLY",
		errFrom: map[string]bool{
			"strconv.Atoi": true, "strconv.ParseFloat": true, "encoding/hex.DecodeString": true,
			"strconv.ParseInt": true,
		},
		lit: func(l edgeLit, immediate bool) (string, bool) {
			if x, kind, k, ok := cmpCanon(l); ok {
				if v := lenOperand(x); v != nil {
					switch {
					case isStringSlice(v.Type()) && kind == "le" && k == 10:
						return "fewer than 11 fields", true
					case isStringType(v.Type()) && kind == "ne" && k == 1:
						return "A value not one character", true
					}
				} else if (kind == "eq" || kind == "le") && k == -1 {
					return "separator not found", true
				}
			}
			if negStringCaseEdge(l, immediate) {
				return "unknown tag type", true
			}
			return "", false
		},
	}
}

// ncbiRejectCfg: the documented reasons ReadNCBI rejects a table.
func ncbiRejectCfg() rejectCfg {
	return rejectCfg{
		rule: "REJECT-ONLY",
		errFrom: map[string]bool{
			"strconv.ParseFloat": true, "(*bufio.Scanner).Err": true,
		},
		lit: func(l edgeLit, immediate bool) (string, bool) {
			if x, kind, k, ok := cmpCanon(l); ok {
				if v := lenOperand(x); v != nil && isStringType(v.Type()) && kind == "ne" && k == 1 {
					return "label not one character", true
				}
			}
			// len(values) != len(columns)+1, either way round
			if bo, ok := l.cond.(*ssa.BinOp); ok && ((bo.Op == token.NEQ && l.pos) || (bo.Op == token.EQL && !l.pos)) {
				for _, pr := range [][2]ssa.Value{{bo.X, bo.Y}, {bo.Y, bo.X}} {
					if rowLenVsColumns(pr[0], pr[1]) {
						return "row length differs from columns+1", true
					}
				}
			}
			return "", false
		},
	}
}

// rowLenVsColumns: a is len(V []string) and b is len(W []byte)+1, or a is len(V)-1 and b is len(W).
func rowLenVsColumns(a, b ssa.Value) bool {
	isByteSlice := func(t types.Type) bool {
		s, ok := t.Underlying().(*types.Slice)
		if !ok {
			return false
		}
		bt, ok := s.Elem().Underlying().(*types.Basic)
		return ok && bt.Kind() == types.Uint8
	}
	plus := func(v ssa.Value, op token.Token) ssa.Value {
		bo, ok := v.(*ssa.BinOp)
		if !ok || bo.Op != op {
			return nil
		}
		if k, ok := cInt(constVal(bo.Y)); ok && k == 1 {
			return bo.X
		}
		if k, ok := cInt(constVal(bo.X)); ok && k == 1 && op == token.ADD {
			return bo.Y
		}
		return nil
	}
	if v := lenOperand(a); v != nil && isStringSlice(v.Type()) {
		if inner := plus(b, token.ADD); inner != nil {
			if w := lenOperand(inner); w != nil && isByteSlice(w.Type()) {
				return true
			}
		}
	}
	if inner := plus(a, token.SUB); inner != nil {
		if v := lenOperand(inner); v != nil && isStringSlice(v.Type()) {
			if w := lenOperand(b); w != nil && isByteSlice(w.Type()) {
				return true
			}
		}
	}
	return false
}

// ---------------------------------------------------------------------------------------------------------------
// CLOSE

// closeScope tracks, per function, which values are the opened handle and which are cells holding it.
type closeScope struct {
	c       *Ctx
	handles map[*ssa.Function]map[ssa.Value]bool // values that are the handle
	cells   map[*ssa.Function]map[ssa.Value]bool // addresses of variables holding it
}

func (cs *closeScope) isHandle(fn *ssa.Function) func(ssa.Value) bool {
	return func(v ssa.Value) bool {
		if cs.handles[fn][v] {
			return true
		}
		ld, ok := v.(*ssa.UnOp)
		return ok && ld.Op == token.MUL && cs.cells[fn][ld.X]
	}
}

// enter propagates handle/cell facts into the closures fn creates.
func (cs *closeScope) enter(fn *ssa.Function) {
	instrs(fn, func(in ssa.Instruction) {
		mc, ok := in.(*ssa.MakeClosure)
		if !ok {
			return
		}
		g := mc.Fn.(*ssa.Function)
		if cs.handles[g] != nil {
			return
		}
		cs.handles[g] = map[ssa.Value]bool{}
		cs.cells[g] = map[ssa.Value]bool{}
		for i, b := range mc.Bindings {
			if i >= len(g.FreeVars) {
				break
			}
			if cs.handles[fn][b] {
				cs.handles[g][g.FreeVars[i]] = true
			}
			if cs.cells[fn][b] {
				cs.cells[g][g.FreeVars[i]] = true
			}
		}
		cs.enter(g)
	})
}

// closing: the instruction closes the handle: a Close call on it (called or deferred), a closure called/deferred
// that closes it, or a module helper handed the handle that closes it.
func (cs *closeScope) closing(fn *ssa.Function, in ssa.Instruction) bool {
	ci, ok := in.(ssa.CallInstruction)
	if !ok {
		return false
	}
	cc := ci.Common()
	isH := cs.isHandle(fn)
	if isCloseOf(cc, isH) {
		return true
	}
	closesIn := func(g *ssa.Function, isHandle func(ssa.Value) bool) bool {
		found := false
		instrs(g, func(in ssa.Instruction) {
			if ci, ok := in.(ssa.CallInstruction); ok && isCloseOf(ci.Common(), isHandle) {
				found = true
			}
		})
		return found
	}
	if mc, ok := cc.Value.(*ssa.MakeClosure); ok {
		g := mc.Fn.(*ssa.Function)
		if g.Synthetic == "" && closesIn(g, cs.isHandle(g)) {
			return true
		}
	}
	if g := cc.StaticCallee(); g != nil && cs.c.inModule(g) && g.Blocks != nil {
		for i, a := range cc.Args {
			if isH(a) && i < len(g.Params) {
				p := g.Params[i]
				if closesIn(g, func(v ssa.Value) bool { return v == ssa.Value(p) }) {
					return true
				}
			}
		}
	}
	return false
}

// rangeBodyClosesBefore: the outer function tests `jump == k` after a range-over-func call: that exit was requested
// by the loop body; true if in the body every path from its entry to a store jump = k passes a closing instruction.
func (cs *closeScope) rangeBodyClosesBefore(fn *ssa.Function, jumpCell ssa.Value, k int64) bool {
	var body *ssa.Function
	var fv ssa.Value
	instrs(fn, func(in ssa.Instruction) {
		mc, ok := in.(*ssa.MakeClosure)
		if !ok {
			return
		}
		g := mc.Fn.(*ssa.Function)
		if g.Synthetic != "range-over-func yield" {
			return
		}
		for i, b := range mc.Bindings {
			if b == jumpCell && i < len(g.FreeVars) {
				body, fv = g, g.FreeVars[i]
			}
		}
	})
	if body == nil {
		return false
	}
	stores := 0
	leak := false
	seen := map[*ssa.BasicBlock]bool{}
	var walk func(b *ssa.BasicBlock)
	walk = func(b *ssa.BasicBlock) {
		if seen[b] {
			return
		}
		seen[b] = true
		for _, in := range b.Instrs {
			if cs.closing(body, in) {
				return
			}
			if st, ok := in.(*ssa.Store); ok && st.Addr == fv {
				if kv, ok := cInt(constVal(st.Val)); ok && kv == k {
					leak = true
				}
			}
		}
		for _, su := range b.Succs {
			walk(su)
		}
	}
	instrs(body, func(in ssa.Instruction) {
		if st, ok := in.(*ssa.Store); ok && st.Addr == fv {
			if kv, ok := cInt(constVal(st.Val)); ok && kv == k {
				stores++
			}
		}
	})
	walk(body.Blocks[0])
	return stores > 0 && !leak
}

// rulesCloseAllExits: for every aio.Open in the format packages: on every path from the successful open to a return
// of the function the file is closed (a Close call on it, or a deferred one registered on the way; a return requested
// from inside a range-over-func body counts when the body closed the file before asking for it).
func rulesCloseAllExits(c *Ctx, r *Report) int {
	n := 0
	for _, f := range formatFuncs(c) {
		instrs(f, func(in ssa.Instruction) {
			call, ok := in.(*ssa.Call)
			if !ok || !fnIs(call.Call.StaticCallee(), gostuffPath+"/aio", "Open") {
				return
			}
			var h, e *ssa.Extract
			for _, ref := range *call.Referrers() {
				if ex, ok := ref.(*ssa.Extract); ok {
					if ex.Index == 0 {
						h = ex
					} else {
						e = ex
					}
				}
			}
			if h == nil {
				return
			}
			n++
			where := fname(f)
			cs := &closeScope{c: c, handles: map[*ssa.Function]map[ssa.Value]bool{f: {h: true}}, cells: map[*ssa.Function]map[ssa.Value]bool{f: {}}}
			for _, ref := range *h.Referrers() {
				if st, ok := ref.(*ssa.Store); ok && st.Val == ssa.Value(h) {
					if al, ok := st.Addr.(*ssa.Alloc); ok {
						cs.cells[f][al] = true
					}
				}
			}
			cs.enter(f)
			// forward search from the open, not through the failed-open edge, stopping at closing instructions
			var leaks []string
			seen := map[*ssa.BasicBlock]bool{}
			var walk func(b *ssa.BasicBlock, from int)
			walk = func(b *ssa.BasicBlock, from int) {
				for i := from; i < len(b.Instrs); i++ {
					in := b.Instrs[i]
					if cs.closing(f, in) {
						return
					}
					if _, ok := in.(*ssa.Return); ok {
						leaks = append(leaks, c.pos(returnPos(b, in)))
						return
					}
				}
				for k, su := range b.Succs {
					if iff, ok := lastInstr(b).(*ssa.If); ok {
						if e != nil && errNonNilEdge(edgeLit{iff.Cond, k == 0}) == ssa.Value(e) {
							continue // the open failed: nothing to close
						}
						// exit requested by a range-over-func body that closed the file first
						if x, kind, kv, ok := cmpCanon(edgeLit{iff.Cond, k == 0}); ok && kind == "eq" && kv > 0 {
							if ld, ok := x.(*ssa.UnOp); ok && ld.Op == token.MUL {
								if al, ok := ld.X.(*ssa.Alloc); ok && strings.HasPrefix(al.Comment, "jump$") && cs.rangeBodyClosesBefore(f, al, kv) {
									continue
								}
							}
						}
					}
					if !seen[su] {
						seen[su] = true
						walk(su, 0)
					}
				}
			}
			start := 0
			for i, in := range call.Block().Instrs {
				if in == ssa.Instruction(call) {
					start = i + 1
				}
			}
			walk(call.Block(), start)
			sort.Strings(leaks)
			r.check(len(leaks) == 0, "CLOSE", where, "opened file closed on every exit", c.pos(call.Pos()),
				"every path from the successful open to a return passes a Close of the file (called or deferred)",
				fmt.Sprintf("the function can return at %v with the file still open (no Close called or deferred on that path): a consumer that stops early leaks the descriptor", dedupe(leaks)))
		})
	}
	return n
}

func returnPos(b *ssa.BasicBlock, in ssa.Instruction) token.Pos {
	if in.Pos().IsValid() {
		return in.Pos()
	}
	for i := len(b.Instrs) - 1; i >= 0; i-- {
		if b.Instrs[i].Pos().IsValid() {
			return b.Instrs[i].Pos()
		}
	}
	if b.Parent() != nil {
		return b.Parent().Pos()
	}
	return token.NoPos
}

// isCloseOf: the call is Close on a handle (method call, interface call or method value).
func isCloseOf(cc *ssa.CallCommon, isHandle func(ssa.Value) bool) bool {
	if cc.IsInvoke() {
		return cc.Method.Name() == "Close" && isHandle(unwrapIface(cc.Value))
	}
	if g := cc.StaticCallee(); g != nil && g.Name() == "Close" && g.Signature.Recv() != nil && len(cc.Args) >= 1 {
		return isHandle(unwrapIface(cc.Args[0]))
	}
	return false
}

func unwrapIface(v ssa.Value) ssa.Value {
	for {
		switch x := v.(type) {
		case *ssa.MakeInterface:
			v = x.X
		case *ssa.ChangeInterface:
			v = x.X
		case *ssa.ChangeType:
			v = x.X
		default:
			return v
		}
	}
}

// ---------------------------------------------------------------------------------------------------------------
// STACK-OPS

// rulesStackOps: in the traversal's step function every value of the stack's type is the initial one-frame stack, the
// loop variable, a push of one frame or a pop of the top frame; every store into a stack element advances the child
// index of the top-before-push frame by one; the pop is on the side where the frame's children are exhausted, the
// push on the other side.
func rulesStackOps(c *Ctx, r *Report) {
	outer := c.role("newick.traverse")
	ib := c.iterBody(outer)
	if ib == nil {
		r.undecided("STACK-OPS", "formats/newick.(*Node).traverse", "anchor", "", "traverse with one iterator literal (or a method value) not found")
		return
	}
	where := fname(outer) + "$1"
	if ib.lit != nil {
		where = fname(ib.lit)
	}
	f := ib.f
	// the stack: a loop-header phi of slice-of-module-struct type
	var phi *ssa.Phi
	for _, b := range f.Blocks {
		for _, in := range b.Instrs {
			p, ok := in.(*ssa.Phi)
			if !ok {
				break
			}
			if sl, ok := p.Type().Underlying().(*types.Slice); ok {
				if _, ok := sl.Elem().Underlying().(*types.Struct); ok && isLoopHeader(b) {
					phi = p
				}
			}
		}
	}
	if phi == nil {
		r.undecided("STACK-OPS", where, "stack variable", c.pos(f.Pos()), "no loop-carried slice of frames found")
		return
	}
	st := phi.Type()
	loop := naturalLoop(phi.Block())
	isStack := func(v ssa.Value) bool { return types.Identical(v.Type(), st) }
	// top index: len(phi)-1
	isTop := func(v ssa.Value) bool {
		bo, ok := v.(*ssa.BinOp)
		if !ok || bo.Op != token.SUB {
			return false
		}
		k, okk := cInt(constVal(bo.Y))
		return okk && k == 1 && lenOperand(bo.X) == ssa.Value(phi)
	}
	// which side of the "children exhausted" test a block is on: +1 exhausted, -1 not, 0 unknown
	side := func(b *ssa.BasicBlock) int {
		for x := b; x != nil && x.Idom() != nil; x = x.Idom() {
			d := x.Idom()
			if len(x.Preds) != 1 || x.Preds[0] != d {
				continue
			}
			iff, ok := lastInstr(d).(*ssa.If)
			if !ok {
				continue
			}
			bo, ok := iff.Cond.(*ssa.BinOp)
			if !ok {
				// the test as a predicate of the frame: step.done() = (s.i == len(s.n.Children))
				if cl, isCall := iff.Cond.(*ssa.Call); isCall && len(cl.Call.Args) == 1 {
					if g := cl.Call.StaticCallee(); g != nil && g.Pkg == f.Pkg && len(g.Blocks) == 1 {
						if rt, isRt := lastInstr(g.Blocks[0]).(*ssa.Return); isRt && len(rt.Results) == 1 {
							bo, ok = rt.Results[0].(*ssa.BinOp)
						}
					}
				}
				if !ok {
					continue
				}
			}
			var op token.Token
			switch {
			case isChildIdx(bo.X) && isChildrenLen(bo.Y):
				op = bo.Op
			case isChildIdx(bo.Y) && isChildrenLen(bo.X):
				switch bo.Op {
				case token.LSS:
					op = token.GTR
				case token.GTR:
					op = token.LSS
				case token.LEQ:
					op = token.GEQ
				case token.GEQ:
					op = token.LEQ
				default:
					op = bo.Op
				}
			default:
				continue
			}
			pos := d.Succs[0] == x
			switch op {
			case token.EQL, token.GEQ:
				if pos {
					return 1
				}
				return -1
			case token.NEQ, token.LSS:
				if pos {
					return -1
				}
				return 1
			}
		}
		return 0
	}
	var bad []string
	nPush, nPop, nInc := 0, 0, 0
	instrs(f, func(in ssa.Instruction) {
		v, isVal := in.(ssa.Value)
		if isVal && isStack(v) && loop[in.Block()] {
			switch x := in.(type) {
			case *ssa.Phi:
			case *ssa.Call:
				if b, ok := x.Call.Value.(*ssa.Builtin); ok && b.Name() == "append" && isStack(x.Call.Args[0]) {
					nPush++
					if side(x.Block()) != -1 {
						bad = append(bad, "push at "+c.pos(x.Pos())+" is not on the side where the frame still has children")
					}
				} else {
					bad = append(bad, "stack produced by a call at "+c.pos(x.Pos()))
				}
			case *ssa.Slice:
				if isStack(x.X) {
					if x.Low == nil && x.High != nil && isTop(x.High) && x.X == ssa.Value(phi) {
						nPop++
						if side(x.Block()) != 1 {
							bad = append(bad, "pop at "+c.pos(x.Pos())+" is not on the side where the frame's children are exhausted")
						}
					} else {
						bad = append(bad, "stack resliced other than to drop the top frame at "+c.pos(x.Pos()))
					}
				}
				// a slice of a fresh array (the pushed frame's varargs) is not a stack
			default:
				bad = append(bad, fmt.Sprintf("stack produced by %T at %s", in, c.pos(in.Pos())))
			}
		}
		if s, ok := in.(*ssa.Store); ok {
			root, field := elemRoot(s.Addr)
			if root == nil || !isStack(root.X) {
				return
			}
			if field == 1 && isTop(root.Index) && isPlusOneOfLoad(s.Val, s.Addr) {
				nInc++
				return
			}
			bad = append(bad, "a frame of the stack is overwritten at "+c.pos(s.Pos())+" other than by advancing the top frame's child index by one")
		}
	})
	sort.Strings(bad)
	r.check(len(bad) == 0, "STACK-OPS", where, "stack changes", c.pos(f.Pos()),
		fmt.Sprintf("inside the loop the stack changes only by pushing one frame (%d, children left), advancing the top frame's child index by one (%d), or dropping the top frame (%d, children exhausted)", nPush, nInc, nPop),
		"the explicit stack is changed in another way: "+strings.Join(bad, "; "))
	r.check(nPush == nInc && nPush > 0 && nPop > 0, "STACK-OPS", where, "push/advance pairing", c.pos(f.Pos()), "every push is paired with one advance of the parent's child index", fmt.Sprintf("%d pushes, %d advances, %d pops", nPush, nInc, nPop))
}

// elemRoot: addr is &S[i] or &S[i].field; returns the IndexAddr and the field (-1 for the whole element).
func elemRoot(addr ssa.Value) (*ssa.IndexAddr, int) {
	switch x := addr.(type) {
	case *ssa.IndexAddr:
		return x, -1
	case *ssa.FieldAddr:
		if ia, ok := x.X.(*ssa.IndexAddr); ok {
			return ia, x.Field
		}
	}
	return nil, -1
}

// isPlusOneOfLoad: v is *(same address) + 1.
func isPlusOneOfLoad(v ssa.Value, addr ssa.Value) bool {
	bo, ok := v.(*ssa.BinOp)
	if !ok || bo.Op != token.ADD {
		return false
	}
	k, okk := cInt(constVal(bo.Y))
	if !okk || k != 1 {
		return false
	}
	ld, ok := bo.X.(*ssa.UnOp)
	if !ok || ld.Op != token.MUL {
		return false
	}
	if sameElemAddr(ld.X, addr) {
		return true
	}
	// the old value read from a local copy of the same element: step := stack[top]; stack[top].i = step.i + 1
	if fa, ok := ld.X.(*ssa.FieldAddr); ok {
		if al, ok := fa.X.(*ssa.Alloc); ok {
			if whole := cellValue(al); whole != nil {
				if wl, ok := whole.(*ssa.UnOp); ok && wl.Op == token.MUL {
					ra, fld := elemRoot(addr)
					rw, _ := elemRoot(wl.X)
					return ra != nil && rw != nil && fld == fa.Field && ra.Index == rw.Index && (ra.X == rw.X || isAppendOf(ra.X, rw.X))
				}
			}
		}
	}
	return false
}

// isAppendOf: v is append(base, …).
func isAppendOf(v, base ssa.Value) bool {
	cl, ok := v.(*ssa.Call)
	if !ok {
		return false
	}
	b, ok := cl.Call.Value.(*ssa.Builtin)
	return ok && b.Name() == "append" && len(cl.Call.Args) > 0 && cl.Call.Args[0] == base
}

func sameElemAddr(a, b ssa.Value) bool {
	if a == b {
		return true
	}
	ra, fa := elemRoot(a)
	rb, fb := elemRoot(b)
	return ra != nil && rb != nil && fa == fb && ra.X == rb.X && ra.Index == rb.Index
}

// isChildIdx: load of field 1 (the child index) of a frame; isChildrenLen: len of a loaded Children slice.
func isChildIdx(v ssa.Value) bool {
	ld, ok := v.(*ssa.UnOp)
	if !ok || ld.Op != token.MUL {
		return false
	}
	fa, ok := ld.X.(*ssa.FieldAddr)
	if !ok {
		return false
	}
	bt, ok := ld.Type().Underlying().(*types.Basic)
	return ok && bt.Info()&types.IsInteger != 0 && fa.Field == 1
}

func isChildrenLen(v ssa.Value) bool {
	x := lenOperand(v)
	if x == nil {
		return false
	}
	sl, ok := x.Type().Underlying().(*types.Slice)
	if !ok {
		return false
	}
	_, isPtr := sl.Elem().Underlying().(*types.Pointer)
	return isPtr
}

// ---------------------------------------------------------------------------------------------------------------
// entry-point rules shared into the per-format codec checks

// scopeRels, when set, restricts formatFuncs and the File table to these packages (the checker is single-threaded).
var scopeRels map[string]bool

func inScopeRel(rel string) bool { return scopeRels == nil || scopeRels[rel] }

// scopedFloor: the instance floor of a rule over all formats, or per package when a scope is set.
func scopedFloor(full, perPkg int) int {
	if scopeRels == nil {
		return full
	}
	return perPkg * len(scopeRels)
}

// rulesEntryPoints: what a codec's round trip through its Reader/File entry points needs from those entry points:
// File(path) is Reader on the opened bytes (FD), the stream only enters a buffering reader (A6), the handle is
// touched only after the error check (NIL-HANDLE).
func rulesEntryPoints(c *Ctx, r *Report, rels ...string) {
	scopeRels = map[string]bool{}
	for _, rel := range rels {
		scopeRels[rel] = true
	}
	defer func() { scopeRels = nil }()
	rulesFileDelegation(c, r)
	rulesReaderEntry(c, r)
	rulesOpenedHandle(c, r)
	rulesNoTranscoder(c, r)
}

// ---------------------------------------------------------------------------------------------------------------
// Rules added after held-out round 6

// rulesNoTranscoder (LAYER): the codec packages read and write the bytes as they are: no decompressor, archive or
// character-set decoder is constructed there (decompression by file suffix belongs to gostuff aio.Open, behind File).
func rulesNoTranscoder(c *Ctx, r *Report) {
	bad, n := detectTranscoders(c, formatFuncs(c))
	sort.Strings(bad)
	pos := ""
	r.check(len(bad) == 0, "LAYER", "formats/*", "bytes taken as they are", pos,
		fmt.Sprintf("no decompressor or transcoder is constructed in the codec packages (%d static calls examined): what Reader decodes is the stream's own bytes, whatever they start with", n),
		"a decompressor/transcoder is constructed in a codec package ("+strings.Join(bad, "; ")+"): the bytes decoded depend on what the content looks like, so records whose text happens to look like that are not read back")
	withControl(r, "LAYER decompressor call", func(cc *Ctx, fs []*ssa.Function) int {
		b, _ := detectTranscoders(cc, fs)
		return len(b)
	})
}

func detectTranscoders(c *Ctx, funcs []*ssa.Function) ([]string, int) {
	var bad []string
	n := 0
	for _, f := range funcs {
		instrs(f, func(in ssa.Instruction) {
			ci, ok := in.(ssa.CallInstruction)
			if !ok {
				return
			}
			g := ci.Common().StaticCallee()
			if g == nil || g.Pkg == nil {
				return
			}
			n++
			p := g.Pkg.Pkg.Path()
			if strings.HasPrefix(p, "compress/") || strings.HasPrefix(p, "archive/") || strings.HasPrefix(p, "golang.org/x/text") || p == "encoding/base64" {
				bad = append(bad, qname(g)+" at "+c.pos(in.Pos()))
			}
			// looking ahead at, or skipping, bytes outside the decoder's own loop (byte-order marks, magic numbers)
			if qn := qname(g); qn == "(*bufio.Reader).Peek" || qn == "(*bufio.Reader).Discard" {
				bad = append(bad, qn+" at "+c.pos(in.Pos()))
			}
		})
	}
	return bad, n
}

// rulesNoFloatToInt (NUM-KIND): in the given packages no floating-point value is converted to an integer: an
// integer column parsed through a float loses values beyond 2^53 and accepts fractions.
func rulesNoFloatToInt(c *Ctx, r *Report, rels ...string) {
	want := map[string]bool{}
	for _, rel := range rels {
		want[modPath+"/"+rel] = true
	}
	var fs []*ssa.Function
	for _, f := range c.moduleFuncs() {
		if want[funcPkgPath(f)] {
			fs = append(fs, f)
		}
	}
	bad, n := detectFloatToInt(c, fs)
	sort.Strings(bad)
	r.check(len(bad) == 0, "NUM-KIND", strings.Join(rels, ","), "no float-to-integer conversion", "",
		fmt.Sprintf("no floating-point value is converted to an integer (%d conversions examined): integer columns are parsed and written as integers", n),
		"a floating-point value is converted to an integer ("+strings.Join(bad, "; ")+"): integers beyond 2^53 do not survive, fractions are accepted and truncated")
	withControl(r, "NUM-KIND float to int", func(cc *Ctx, cf []*ssa.Function) int {
		b, _ := detectFloatToInt(cc, cf)
		return len(b)
	})
}

func detectFloatToInt(c *Ctx, funcs []*ssa.Function) ([]string, int) {
	var bad []string
	n := 0
	for _, f := range funcs {
		instrs(f, func(in ssa.Instruction) {
			cv, ok := in.(*ssa.Convert)
			if !ok {
				return
			}
			n++
			from, ok1 := cv.X.Type().Underlying().(*types.Basic)
			to, ok2 := cv.Type().Underlying().(*types.Basic)
			if ok1 && ok2 && from.Info()&types.IsFloat != 0 && to.Info()&types.IsInteger != 0 {
				bad = append(bad, fname(f)+" at "+c.pos(cv.Pos()))
			}
		})
	}
	return bad, n
}

// rulesWriterErrOrigin (W-ERR): every error a Write method returns is nil, or the error of a call that was handed the
// writer (directly or through a helper of the package), or — where the format documents a refusal — an error
// constructed behind that documented reason. A sentinel (io.ErrShortWrite …) or a constructed error anywhere else
// makes Write fail although the writer accepted everything.
func rulesWriterErrOrigin(c *Ctx, r *Report, rel, method string, documented func(l edgeLit) (string, bool)) {
	w := c.fn(rel, method)
	where := rel + "." + method
	if w == nil {
		r.undecided("W-ERR", where, "anchor", "", "Write not found")
		return
	}
	r.analysed(where)
	var wparam ssa.Value
	for _, p := range w.Params {
		if isIOWriter(p.Type()) {
			wparam = p
		}
	}
	if wparam == nil {
		r.undecided("W-ERR", where, "writer parameter", c.pos(w.Pos()), "no io.Writer parameter")
		return
	}
	// functions of the package that receive the writer (helpers), transitively one level
	takesWriter := func(cl *ssa.Call, wv func(ssa.Value) bool) bool {
		if cl.Call.IsInvoke() {
			return wv(cl.Call.Value)
		}
		for _, a := range cl.Call.Args {
			if wv(a) {
				return true
			}
		}
		return false
	}
	var check func(f *ssa.Function, isW func(ssa.Value) bool, depth int) []string
	check = func(f *ssa.Function, isW func(ssa.Value) bool, depth int) []string {
		var bad []string
		instrs(f, func(in ssa.Instruction) {
			rt, ok := in.(*ssa.Return)
			if !ok {
				return
			}
			for _, op := range retOperands(rt) {
				if !isErrorType(op.Type()) {
					continue
				}
				var origins []ssa.Value
				seen := map[ssa.Value]bool{}
				var walk func(v ssa.Value)
				walk = func(v ssa.Value) {
					if seen[v] {
						return
					}
					seen[v] = true
					switch x := v.(type) {
					case *ssa.Phi:
						for _, e := range x.Edges {
							walk(e)
						}
					case *ssa.Extract:
						walk(x.Tuple)
					case *ssa.UnOp:
						if al, isAl := x.X.(*ssa.Alloc); isAl && x.Op == token.MUL {
							for _, ref := range *al.Referrers() {
								if st, isSt := ref.(*ssa.Store); isSt && st.Addr == ssa.Value(al) {
									walk(st.Val)
								}
							}
							return
						}
						origins = append(origins, v)
					default:
						origins = append(origins, v)
					}
				}
				walk(op)
				for _, o := range origins {
					if isNilConst(o) {
						continue
					}
					cl, isCall := o.(*ssa.Call)
					if !isCall {
						bad = append(bad, "a value that is not the result of a write ("+c.pos(rt.Pos())+")")
						continue
					}
					g := cl.Call.StaticCallee()
					if isErrConstructor(g) {
						// a refusal: only behind the documented reason
						okDoc := false
						if documented != nil {
							okDoc, _ = pathsAllTake(cl.Block(), func(l edgeLit, _ bool) (string, bool) { return documented(l) })
						}
						if !okDoc {
							bad = append(bad, "an error constructed at "+c.pos(cl.Pos())+" outside the documented refusals")
						}
						continue
					}
					if takesWriter(cl, isW) {
						if g != nil && g.Blocks != nil && c.inModule(g) && depth < 2 && !cl.Call.IsInvoke() {
							// a helper of the module: same question inside, for its writer parameter
							for i, a := range cl.Call.Args {
								if isW(a) && i < len(g.Params) {
									p := g.Params[i]
									bad = append(bad, check(g, func(v ssa.Value) bool { return v == ssa.Value(p) }, depth+1)...)
								}
							}
						}
						continue
					}
					// a function of the module that was not handed the writer (newick: Write = MarshalText + one w.Write):
					// whatever error it can return is judged the same way — there is no writer inside it
					if g != nil && g.Blocks != nil && c.inModule(g) && depth < 2 && !cl.Call.IsInvoke() {
						bad = append(bad, check(g, func(ssa.Value) bool { return false }, depth+1)...)
						continue
					}
					bad = append(bad, "the error of "+callName(cl)+" at "+c.pos(cl.Pos())+", which was not handed the writer")
				}
			}
		})
		return bad
	}
	bad := check(w, func(v ssa.Value) bool { return unwrapIface(v) == wparam }, 0)
	sort.Strings(bad)
	r.check(len(bad) == 0, "W-ERR", where, "errors come from the writer", c.pos(w.Pos()),
		"every error Write returns is nil, the error of a call that was handed the writer, or a documented refusal: Write returns nil when the writer accepted everything",
		"Write can return "+strings.Join(dedupe(bad), "; ")+": it fails although the writer accepted every byte")
}

func isIOWriter(t types.Type) bool {
	n, ok := t.(*types.Named)
	return ok && n.Obj().Pkg() != nil && n.Obj().Pkg().Path() == "io" && n.Obj().Name() == "Writer"
}

// bedNRange: the documented refusal of BED.Write: N outside 3..12.
func bedNRange(l edgeLit) (string, bool) {
	if x, kind, k, ok := cmpCanon(l); ok {
		if ld, isLd := x.(*ssa.UnOp); isLd && ld.Op == token.MUL {
			if fa, isFa := ld.X.(*ssa.FieldAddr); isFa && fa.Field == 0 {
				if (kind == "le" && k == 2) || (kind == "ge" && k == 13) {
					return "N outside 3..12", true
				}
			}
		}
	}
	return "", false
}

// pathsAllTake: every forward path from the function's entry to target takes an edge that reasonOf accepts.
func pathsAllTake(target *ssa.BasicBlock, reasonOf func(l edgeLit, immediate bool) (string, bool)) (bool, string) {
	memo := map[*ssa.BasicBlock]int{} // 1 in progress, 2 yes, 3 no
	why := map[*ssa.BasicBlock]string{}
	var accepted func(b *ssa.BasicBlock) bool
	accepted = func(b *ssa.BasicBlock) bool {
		switch memo[b] {
		case 2:
			return true
		case 3, 1:
			return false
		}
		memo[b] = 1
		res := false
		var reasons []string
		if len(b.Preds) > 0 {
			res = true
			for _, p := range b.Preds {
				if b.Dominates(p) { // back edge
					continue
				}
				okEdge := false
				if iff, isIf := lastInstr(p).(*ssa.If); isIf && p.Succs[0] != p.Succs[1] {
					if rs, ok := reasonOf(edgeLit{iff.Cond, p.Succs[0] == b}, b == target); ok {
						okEdge = true
						reasons = append(reasons, rs)
					}
				}
				if !okEdge {
					if accepted(p) {
						reasons = append(reasons, why[p])
					} else {
						res = false
					}
				}
			}
		}
		if res {
			memo[b] = 2
			sort.Strings(reasons)
			why[b] = strings.Join(dedupe(reasons), " | ")
		} else {
			memo[b] = 3
		}
		return res
	}
	ok := accepted(target)
	return ok, why[target]
}

// rulesStepsReversed (REV): the traceback collects the steps back to front; before they are returned they are reversed
// completely: by slices.Reverse, or by a loop that swaps positions p and q with p + q = len-1 kept as an invariant and
// runs exactly while p < q.
func rulesStepsReversed(c *Ctx, r *Report) {
	n := 0
	for _, spec := range []struct{ name, role string }{{"Global", "align.traceGlobal"}, {"Local", "align.traceLocal"}} {
		root := c.role(spec.role)
		if root == nil {
			r.undecided("REV", "align."+spec.name, "anchor", "", "trace function not found")
			continue
		}
		found := false
		fs := c.stageFuncs(root)
		// the reversal in a helper of the package that both tracebacks share: called with the collected steps
		inFs := map[*ssa.Function]bool{}
		for _, f := range fs {
			inFs[f] = true
		}
		for _, f := range append([]*ssa.Function{}, fs...) {
			for _, g := range c.calleesIn(f) {
				if !inFs[g] && g.Pkg == root.Pkg && g.Blocks != nil && len(g.Params) == 1 && g.Signature.Results().Len() == 0 {
					if _, isSl := g.Params[0].Type().Underlying().(*types.Slice); isSl {
						inFs[g] = true
						fs = append(fs, g)
					}
				}
			}
		}
		for _, f := range fs {
			if ok, desc, why := reversalIn(c, f); ok || why != "" {
				found = true
				n++
				r.analysed(fname(f))
				r.check(ok, "REV", fname(f), "steps reversed completely", c.pos(f.Pos()), desc, why)
			}
		}
		if !found {
			r.violated("REV", fname(root), "steps reversed completely", c.pos(root.Pos()), "the steps are collected from the end of the alignment to its start and no reversal (slices.Reverse or a swap loop) precedes the return: the alignment comes out backwards")
		}
	}
	r.floor("REV", n, 2, "reversal of the collected steps in the two traceback functions")
}

// reversalIn looks for the reversal in f: (true, description, "") when it is complete, (false, "", reason) when a swap
// loop is there but is not a complete reversal, (false, "", "") when f has no reversal at all.
func reversalIn(c *Ctx, f *ssa.Function) (bool, string, string) {
	// slices.Reverse(x)
	var rev *ssa.Call
	instrs(f, func(in ssa.Instruction) {
		if cl, ok := in.(*ssa.Call); ok && cl.Call.StaticCallee() != nil {
			if o := cl.Call.StaticCallee().Origin(); (o != nil && qname(o) == "slices.Reverse") || qname(cl.Call.StaticCallee()) == "slices.Reverse" {
				rev = cl
			}
		}
	})
	if rev != nil {
		return true, "the steps are reversed by slices.Reverse", ""
	}
	s := newSymb(f)
	// a swap: S[p] = load(S[q]) and S[q] = load(S[p]) in one block
	type swap struct {
		base ssa.Value
		p, q ssa.Value
		blk  *ssa.BasicBlock
	}
	var sw *swap
	for _, b := range f.Blocks {
		var sts []*ssa.Store
		for _, in := range b.Instrs {
			if st, ok := in.(*ssa.Store); ok {
				if _, ok := st.Addr.(*ssa.IndexAddr); ok {
					sts = append(sts, st)
				}
			}
		}
		for _, a := range sts {
			for _, bb := range sts {
				if a == bb {
					continue
				}
				ia, ib := a.Addr.(*ssa.IndexAddr), bb.Addr.(*ssa.IndexAddr)
				la, okA := a.Val.(*ssa.UnOp)
				lb, okB := bb.Val.(*ssa.UnOp)
				if !okA || !okB || ia.X != ib.X {
					continue
				}
				sa, okA := la.X.(*ssa.IndexAddr)
				sb, okB := lb.X.(*ssa.IndexAddr)
				if !okA || !okB || sa.X != ia.X || sb.X != ia.X {
					continue
				}
				if s.expr(sa.Index).String() == s.expr(ib.Index).String() && s.expr(sb.Index).String() == s.expr(ia.Index).String() {
					sw = &swap{ia.X, ia.Index, ib.Index, b}
				}
			}
		}
	}
	if sw == nil {
		return backFill(c, f, s)
	}
	lenS := "builtin:len(" + s.expr(sw.base).String() + ")"
	p, q := linOf(s.expr(sw.p)), linOf(s.expr(sw.q))
	// loop variables
	var phis []*ssa.Phi
	var header *ssa.BasicBlock
	for _, b := range f.Blocks {
		if lp := naturalLoop(b); len(lp) > 1 && lp[sw.blk] {
			if header == nil || len(lp) < len(naturalLoop(header)) {
				header = b
			}
		}
	}
	if header == nil {
		return false, "", "positions are swapped outside a loop"
	}
	for _, in := range header.Instrs {
		if ph, ok := in.(*ssa.Phi); ok {
			if bt, ok := ph.Type().Underlying().(*types.Basic); ok && bt.Info()&types.IsInteger != 0 {
				phis = append(phis, ph)
			}
		}
	}
	// invariant p + q = len - 1
	sum := linSub(p, linSub(linForm{coef: map[string]int64{}}, q)) // p + q
	want := linForm{coef: map[string]int64{lenS: 1}, k: -1}
	if d := linSub(sum, want); d.String() != "0" {
		// two cursors: the sum of their starts is len-1 and their steps cancel
		okInv := false
		if len(d.coef) > 0 {
			init := linForm{coef: map[string]int64{}}
			delta := int64(0)
			okAll := true
			for _, ph := range phis {
				name := s.expr(ph).String()
				cf := sum.coef[name]
				if cf == 0 {
					continue
				}
				for k, e := range ph.Edges {
					if header.Dominates(header.Preds[k]) && header.Preds[k] != header.Idom() && naturalLoop(header)[header.Preds[k]] {
						st := linSub(linOf(s.expr(e)), linOf(s.expr(ph)))
						if len(nonZero(st.coef)) != 0 {
							okAll = false
						}
						delta += cf * st.k
					} else {
						e2 := linOf(s.expr(e))
						for kk, vv := range e2.coef {
							init.coef[kk] += cf * vv
						}
						init.k += cf * e2.k
					}
				}
			}
			// everything in sum that is not a loop variable stays
			for kk, vv := range sum.coef {
				isPhi := false
				for _, ph := range phis {
					if s.expr(ph).String() == kk {
						isPhi = true
					}
				}
				if !isPhi {
					init.coef[kk] += vv
				}
			}
			init.k += sum.k
			okInv = okAll && delta == 0 && linSub(init, want).String() == "0"
		}
		if !okInv {
			return false, "", "the two positions that are swapped do not add up to len-1 (" + sum.String() + "): they are not mirror images of each other"
		}
	}
	// the loop runs exactly while p < q: its test, as C >= 0, is q - p - 1 >= 0
	iff, ok := lastInstr(header).(*ssa.If)
	var C linForm
	okC := false
	if ok {
		if bo, ok := iff.Cond.(*ssa.BinOp); ok && naturalLoop(header)[header.Succs[0]] && !naturalLoop(header)[header.Succs[1]] {
			a, b := linOf(s.expr(bo.X)), linOf(s.expr(bo.Y))
			one := linForm{coef: map[string]int64{}, k: 1}
			switch bo.Op {
			case token.LSS:
				C, okC = linSub(linSub(b, a), one), true
			case token.GTR:
				C, okC = linSub(linSub(a, b), one), true
			case token.LEQ:
				C, okC = linSub(b, a), true
			case token.GEQ:
				C, okC = linSub(a, b), true
			}
		}
	}
	if !okC {
		// a counted loop in another spelling (range over an integer)
		for _, ph := range phis {
			if l, why := findCountedLoop(ph); why == "" {
				one := linForm{coef: map[string]int64{}, k: 1}
				C, okC = linSub(linSub(linOf(s.expr(l.bound)), linOf(s.expr(ph))), one), true
			}
		}
	}
	if !okC {
		return false, "", "the loop's test is not a comparison this rule can read"
	}
	target := linSub(linSub(q, p), linForm{coef: map[string]int64{}, k: 1})
	// substitute the invariant for a two-cursor form is not needed: C is compared as written; for `i < len/2`:
	// (len/2) - i - 1 >= 0  <=>  len - 2i - 2 >= 0
	half := "(" + lenS + " / 2)"
	if C.coef[half] == 1 {
		C2 := linForm{coef: map[string]int64{}, k: 2 * C.k}
		for kk, vv := range C.coef {
			if kk == half {
				C2.coef[lenS] += 1
			} else {
				C2.coef[kk] += 2 * vv
			}
		}
		C = C2
	}
	target2 := linSub(linSub(p, q), linForm{coef: map[string]int64{}, k: 1}) // the same with the two positions named the other way round
	if linSub(C, target).String() != "0" && linSub(C, target2).String() != "0" {
		return false, "", fmt.Sprintf("the swap loop runs while %s >= 0, a complete reversal runs exactly while p < q, i.e. while %s >= 0: elements near the middle stay unswapped (or are swapped back)", C.String(), target.String())
	}
	// orientation: on entry the test must read len - 2 >= 0 (the outermost pair is swapped first)
	C0 := linForm{coef: map[string]int64{}, k: C.k}
	for kk, vv := range C.coef {
		sub := false
		for _, ph := range phis {
			if s.expr(ph).String() != kk {
				continue
			}
			for k, e := range ph.Edges {
				if !naturalLoop(header)[header.Preds[k]] {
					e2 := linOf(s.expr(e))
					for k2, v2 := range e2.coef {
						C0.coef[k2] += vv * v2
					}
					C0.k += vv * e2.k
					sub = true
				}
			}
		}
		if !sub {
			C0.coef[kk] += vv
		}
	}
	if linSub(C0, linForm{coef: map[string]int64{lenS: 1}, k: -2}).String() != "0" {
		return false, "", "on entry the swap loop's test reads " + C0.String() + " >= 0, want len-2 >= 0: the loop does not start from the outermost pair"
	}
	return true, "the steps are reversed by a loop that swaps mirror positions p, q (p + q = len-1) exactly while p < q", ""
}

// backFill: the other way of getting the steps in order: a buffer of fixed length filled from its end (index
// decreasing by one per step) and returned from the last index written. Its necessary condition: the buffer holds
// the longest path through the table, (rows-1) + (columns-1) steps with rows = len(blocks)/bn and columns = bn —
// its length must be bn + len(blocks)/bn - 2 or more, for every table.
func backFill(c *Ctx, f *ssa.Function, s *symb) (bool, string, string) {
	var ret *ssa.Slice
	instrs(f, func(in ssa.Instruction) {
		if rt, ok := in.(*ssa.Return); ok {
			for _, op := range retOperands(rt) {
				if sl, ok := op.(*ssa.Slice); ok && sl.Low != nil && sl.High == nil {
					if _, isSlice := sl.X.Type().Underlying().(*types.Slice); isSlice {
						ret = sl
					}
				}
			}
		}
	})
	if ret == nil {
		return false, "", ""
	}
	mk, ok := ret.X.(*ssa.MakeSlice)
	if !ok {
		return false, "", ""
	}
	// stores into the buffer by index
	nSt := 0
	instrs(f, func(in ssa.Instruction) {
		if st, ok := in.(*ssa.Store); ok {
			if ia, ok := st.Addr.(*ssa.IndexAddr); ok && ia.X == ssa.Value(mk) {
				nSt++
			}
		}
	})
	if nSt == 0 {
		return false, "", ""
	}
	if len(f.Params) < 2 {
		return false, "", "steps are written into a fixed-size buffer whose size this rule cannot relate to the table"
	}
	L := linOf(s.expr(mk.Len))
	bn := s.expr(f.Params[1]).String()
	q := "(builtin:len(" + s.expr(f.Params[0]).String() + ") / " + bn + ")"
	need := linForm{coef: map[string]int64{bn: 1, q: 1}, k: -2}
	d := linSub(L, need)
	if len(nonZero(d.coef)) != 0 || d.k < 0 {
		return false, "", fmt.Sprintf("the steps are written into a buffer of %s cells, filled from its end; a path through the table has up to bn + len(blocks)/bn - 2 steps (%s): for alignments with gaps on both sides the index runs below 0 and the call panics", L.String(), need.String())
	}
	return true, fmt.Sprintf("the steps are written from the end of a buffer of %s cells, which holds the longest path (bn + len(blocks)/bn - 2), and returned from the last index written", L.String()), ""
}

// rulesSplitters (SPLIT): how the package takes text apart is how the writer put it together: every call that splits a
// string is strings.Split/SplitN on one of the writer's separators; Fields, FieldsFunc, regexp splitting and other
// separators take apart (or glue together) what the writer did not.
func rulesSplitters(c *Ctx, r *Report, rel string, seps ...string) {
	allowed := map[string]bool{}
	for _, s := range seps {
		allowed[s] = true
	}
	n := 0
	var bad []string
	for _, f := range c.moduleFuncs() {
		if funcPkgPath(f) != modPath+"/"+rel {
			continue
		}
		instrs(f, func(in ssa.Instruction) {
			cl, ok := in.(*ssa.Call)
			if !ok || cl.Call.StaticCallee() == nil {
				return
			}
			qn := qname(cl.Call.StaticCallee())
			switch qn {
			case "strings.Split", "strings.SplitN", "bytes.Split", "bytes.SplitN":
				n++
				sep, ok := constStr(cl.Call.Args[1])
				if !ok {
					if cv, isCv := cl.Call.Args[1].(*ssa.Convert); isCv {
						sep, ok = constStr(cv.X)
					}
				}
				if !ok || !allowed[sep] {
					bad = append(bad, fmt.Sprintf("%s on %q at %s", qn, sep, c.pos(cl.Pos())))
				}
			case "strings.Fields", "strings.FieldsFunc", "bytes.Fields", "bytes.FieldsFunc", "strings.SplitAfter", "strings.SplitAfterN",
				"(*regexp.Regexp).Split", "(*regexp.Regexp).FindAllString", "(*regexp.Regexp).FindAllStringIndex":
				n++
				bad = append(bad, qn+" at "+c.pos(cl.Pos()))
			}
		})
	}
	sort.Strings(bad)
	r.check(len(bad) == 0, "SPLIT", rel, "text is split on the writer's separators only", "",
		fmt.Sprintf("every splitting call of the package (%d) is Split/SplitN on one of %q", n, seps),
		"text is taken apart other than on the writer's separators: "+strings.Join(bad, "; ")+" — values the writer emits (a '-' sign, a blank, an empty item) are cut or dropped")
	r.floor("SPLIT-"+rel, n, 1, "splitting calls in "+rel)
}

// rulesTracePanics (PANIC-SET): the only explicit panics of the traceback functions are their two consistency checks —
// the table index below 0, and (Local) a negative score at the current cell. Any other panic is a claim about the
// table that alignments with some matrix will not meet.
func rulesTracePanics(c *Ctx, r *Report) {
	n := 0
	for _, spec := range []struct{ name, role string }{{"Global", "align.traceGlobal"}, {"Local", "align.traceLocal"}} {
		root := c.role(spec.role)
		if root == nil {
			r.undecided("PANIC-SET", "align."+spec.name, "anchor", "", "trace function not found")
			continue
		}
		fs := c.stageFuncs(root)
		// and the checks moved into helpers of the package that several functions share (checkTraceEnd(i))
		inFs := map[*ssa.Function]bool{}
		for _, f := range fs {
			inFs[f] = true
		}
		for _, f := range append([]*ssa.Function{}, fs...) {
			for _, g := range c.calleesIn(f) {
				if inFs[g] || g.Pkg != root.Pkg || g.Blocks == nil || g == c.role("align.decideOnStep") {
					continue
				}
				hasPanic := false
				instrs(g, func(in ssa.Instruction) {
					if _, ok := in.(*ssa.Panic); ok {
						hasPanic = true
					}
				})
				if hasPanic {
					inFs[g] = true
					fs = append(fs, g)
				}
			}
		}
		for _, f := range fs {
			s := newSymb(f)
			instrs(f, func(in ssa.Instruction) {
				pn, ok := in.(*ssa.Panic)
				if !ok {
					return
				}
				n++
				r.analysed(fname(f))
				ok2, why := pathsAllTake(pn.Block(), func(l edgeLit, _ bool) (string, bool) {
					bo, isBin := l.cond.(*ssa.BinOp)
					if !isBin {
						return "", false
					}
					// index < 0  (an integer that is not a length)
					if x, kind, k, okc := cmpCanon(l); okc && kind == "le" && k == -1 && lenOperand(x) == nil {
						if bt, ok := x.Type().Underlying().(*types.Basic); ok && bt.Info()&types.IsInteger != 0 {
							return "table index below 0", true
						}
					}
					// blocks[i].score < 0
					e := s.expr(bo)
					if l.pos && (strings.HasPrefix(e.String(), "(load(P0[") && strings.HasSuffix(e.String(), "].f0) < 0)")) {
						return "negative score at the current cell", true
					}
					return "", false
				})
				pos := c.pos(pn.Pos())
				if pos == "" {
					pos = c.pos(returnPos(pn.Block(), pn))
				}
				r.check(ok2, "PANIC-SET", fname(f), "explicit panic", pos, "behind a consistency check of the table: "+why,
					"an explicit panic that is not behind `index < 0` or `score < 0` at the current cell: it asserts something about the table that does not hold for every substitution matrix, so some alignments panic")
			})
		}
	}
	r.floor("PANIC-SET", n, 2, "explicit panics in the two traceback functions (3 today)")
}

// rulesFillAllCells (FILL-ALL): the loop that fills the table visits every cell: it is left only through its own
// counting test — no break, no early return (a cell that is not filled keeps score 0 and is never an optimum).
func rulesFillAllCells(c *Ctx, r *Report) {
	n := 0
	for _, name := range []string{"Global", "Local"} {
		entry := c.fn("align", name)
		if entry == nil {
			r.undecided("FILL-ALL", "align."+name, "anchor", "", "function not found")
			continue
		}
		dec := c.role("align.decideOnStep")
		for _, f := range c.stageFuncs(entry) {
			// the loop that contains the call of decideOnStep
			var header *ssa.BasicBlock
			if dec != nil {
				for _, cl := range staticCallsTo(f, dec) {
					for _, b := range f.Blocks {
						if lp := naturalLoop(b); len(lp) > 1 && lp[cl.Block()] {
							if header == nil || len(lp) > len(naturalLoop(header)) {
								header = b
							}
						}
					}
				}
			}
			if header == nil {
				continue
			}
			n++
			r.analysed(fname(f))
			loop := naturalLoop(header)
			var exits []string
			for b := range loop {
				for _, su := range b.Succs {
					if loop[su] || blockAlwaysPanics(su) {
						continue
					}
					if b == header {
						continue // the loop's own test
					}
					// rotated loops test at the latch: an exit from a block whose other successor is the header's body
					// entry counts as the loop's own test when it compares the loop counter
					if iff, ok := lastInstr(b).(*ssa.If); ok {
						if bo, ok := iff.Cond.(*ssa.BinOp); ok {
							isCounter := false
							for _, v := range []ssa.Value{bo.X, bo.Y} {
								if add, ok := v.(*ssa.BinOp); ok && add.Op == token.ADD {
									if ph, ok := add.X.(*ssa.Phi); ok && ph.Block() == header {
										isCounter = true
									}
								}
							}
							if isCounter {
								continue
							}
						}
					}
					exits = append(exits, c.pos(returnPos(b, lastInstr(b))))
				}
			}
			sort.Strings(exits)
			r.check(len(exits) == 0, "FILL-ALL", fname(f), "the fill loop visits every cell", c.pos(header.Instrs[0].Pos()),
				"the loop that fills the table is left only through its own counting test",
				fmt.Sprintf("the fill loop can be left early at %v: the cells after that point are never computed, a better alignment there is missed", dedupe(exits)))
		}
	}
	r.floor("FILL-ALL", n, 2, "fill loops of Global and Local")
}

// rulesNCBITokens (TOKENS): rows are cut into tokens by the regular expression \S+ — ASCII-agnostic "runs of
// non-space" as the regexp package defines \s (space, \t \n \v? no: [\t\n\f\r ]) — for the header and for the value
// rows alike; Unicode-aware splitters (strings.Fields) cut at bytes of the table's single-byte alphabet.
func rulesNCBITokens(c *Ctx, r *Report, rd *ssa.Function) {
	where := fname(rd)
	n := 0
	var bad []string
	fns := []*ssa.Function{rd}
	for _, g := range c.calleesIn(rd) {
		if g.Pkg == rd.Pkg && g.Blocks != nil {
			fns = append(fns, g)
		}
	}
	for _, f := range fns {
		instrs(f, func(in ssa.Instruction) {
			cl, ok := in.(*ssa.Call)
			if !ok || cl.Call.StaticCallee() == nil {
				return
			}
			switch qn := qname(cl.Call.StaticCallee()); qn {
			case "(*regexp.Regexp).FindAllString":
				n++
				pat := ""
				recv := cl.Call.Args[0]
				// the compiled pattern handed to a helper as its parameter: what every call of the helper (in the
				// reader and its helpers) passes — one and the same value
				if par, ok := recv.(*ssa.Parameter); ok {
					var arg ssa.Value
					same := true
					for _, g := range fns {
						for _, site := range staticCallsTo(g, f) {
							for i, fp := range f.Params {
								if fp == par && i < len(site.Call.Args) {
									if arg != nil && arg != site.Call.Args[i] {
										same = false
									}
									arg = site.Call.Args[i]
								}
							}
						}
					}
					if arg != nil && same {
						recv = arg
					}
				}
				if mk, ok := recv.(*ssa.Call); ok && fnIs(mk.Call.StaticCallee(), "regexp", "MustCompile") {
					pat, _ = constStr(mk.Call.Args[0])
				} else if ld, ok := recv.(*ssa.UnOp); ok {
					// a package-level pattern compiled once
					if g, ok := ld.X.(*ssa.Global); ok {
						for init := range c.initFuncsOf("formats/smtext") {
							instrs(init, func(in2 ssa.Instruction) {
								if st, ok := in2.(*ssa.Store); ok && st.Addr == ssa.Value(g) {
									if mk, ok := st.Val.(*ssa.Call); ok && fnIs(mk.Call.StaticCallee(), "regexp", "MustCompile") {
										pat, _ = constStr(mk.Call.Args[0])
									}
								}
							})
						}
					}
				}
				if pat != `\S+` {
					bad = append(bad, fmt.Sprintf("FindAllString with pattern %q at %s", pat, c.pos(cl.Pos())))
				}
			case "strings.Fields", "strings.FieldsFunc", "strings.Split", "strings.SplitN", "(*regexp.Regexp).Split":
				n++
				bad = append(bad, qn+" at "+c.pos(cl.Pos()))
			}
		})
	}
	sort.Strings(bad)
	r.check(len(bad) == 0 && n >= 1, "TOKENS", where, "rows are cut by \\S+", c.pos(rd.Pos()),
		fmt.Sprintf("every row is cut into tokens by the regular expression \\S+ (%d call sites): header and value rows alike, whatever single bytes the alphabet uses", n),
		"rows are cut into tokens other than by the regular expression \\S+: "+strings.Join(bad, "; ")+" — a Unicode-aware splitter treats bytes of a single-byte alphabet (0x0B, 0x85, 0xA0 …) as separators or glues tokens")
}

// rulesTraceStart (T-START): Local's traceback starts at a best cell of the WHOLE table: the function that finds
// the highest score is handed the table parameter itself (not a part of it), its result is the index the walk
// starts from as it is (no offset), and its own loop visits every element (no early exit). A search over a part of
// the table misses alignments that end elsewhere (or panics when the part is empty).
func rulesTraceStart(c *Ctx, r *Report) {
	root := c.role("align.traceLocal")
	where := "align.traceLocal"
	if root == nil {
		r.undecided("T-START", where, "anchor", "", "trace function not found")
		return
	}
	n := 0
	for _, f := range c.stageFuncs(root) {
		if len(f.Params) == 0 {
			continue
		}
		tblType := f.Params[0].Type()
		instrs(f, func(in ssa.Instruction) {
			cl, ok := in.(*ssa.Call)
			if !ok {
				return
			}
			g := cl.Call.StaticCallee()
			if g == nil || g.Blocks == nil || g.Pkg != f.Pkg || len(g.Params) != 1 || !types.Identical(g.Params[0].Type(), tblType) || g.Signature.Results().Len() != 1 {
				return
			}
			if bt, ok := g.Signature.Results().At(0).Type().Underlying().(*types.Basic); !ok || bt.Kind() != types.Int {
				return
			}
			n++
			r.analysed(fname(g))
			whole := cl.Call.Args[0] == ssa.Value(f.Params[0])
			r.check(whole, "T-START", fname(f), "searches the whole table", c.pos(cl.Pos()),
				"the best cell is searched in the table parameter itself", "the best cell is searched in "+newSymb(f).expr(cl.Call.Args[0]).String()+", not in the whole table: alignments that end in the part left out are missed, and an empty part panics")
			// the result is the start index as it is
			asIs := false
			if phi := traceLoopVar(f); phi != nil {
				for i, e := range phi.Edges {
					if !phi.Block().Dominates(phi.Block().Preds[i]) && e == ssa.Value(cl) {
						asIs = true
					}
				}
			} else if cell := traceIndexCell(f); cell != nil {
				for _, ref := range *cell.Referrers() {
					if st, ok := ref.(*ssa.Store); ok && st.Addr == ssa.Value(cell) && st.Val == ssa.Value(cl) {
						asIs = true
					}
				}
			}
			r.check(asIs, "T-START", fname(f), "starts at the cell found", c.pos(cl.Pos()),
				"the walk starts at the index the search returned, unchanged", "the index the walk starts at is not the search result as it is (an offset or another value): the walk starts at a different cell than the best one")
			// the search visits every element
			var header *ssa.BasicBlock
			for _, b := range g.Blocks {
				if isLoopHeader(b) && (header == nil || len(naturalLoop(b)) > len(naturalLoop(header))) {
					header = b
				}
			}
			okAll := false
			why := "no loop"
			if header != nil {
				loop := naturalLoop(header)
				okAll, why = true, ""
				for b := range loop {
					for _, su := range b.Succs {
						if !loop[su] && b != header {
							okAll, why = false, "the loop is left at "+c.pos(lastInstr(b).Pos())
						}
					}
				}
				// a counted/range loop over len(P0)
				okBound := false
				for _, in2 := range header.Instrs {
					if phi, ok := in2.(*ssa.Phi); ok {
						var l *countedLoop
						var w string
						l, w = findCountedLoop(phi)
						if w != "" {
							for _, ref := range *phi.Referrers() {
								if b, ok := ref.(*ssa.BinOp); ok && b.Op == token.ADD {
									if l2, w2 := findCountedLoopAny(phi, b); w2 == "" {
										l, w = l2, ""
									}
								}
							}
						}
						if w == "" && l != nil {
							if bl, ok := l.bound.(*ssa.Call); ok {
								if bi, ok := bl.Call.Value.(*ssa.Builtin); ok && bi.Name() == "len" && bl.Call.Args[0] == ssa.Value(g.Params[0]) {
									okBound = true
								}
							}
						}
					}
				}
				if !okBound {
					okAll, why = false, "the loop does not count over len of the whole parameter"
				}
			}
			r.check(okAll, "T-START", fname(g), "visits every cell", c.pos(g.Pos()),
				"the search loop runs over every element of its parameter and is left only at its end", "the search for the best cell does not visit every element ("+why+")")
		})
	}
	if n == 0 {
		// the search written out in the traceback itself: a loop over the whole table whose running best index is
		// what the walk starts from
		for _, f := range c.stageFuncs(root) {
			if len(f.Params) == 0 {
				continue
			}
			tphi := traceLoopVar(f)
			if tphi == nil {
				continue
			}
			var start *ssa.Phi
			for i, e := range tphi.Edges {
				if !tphi.Block().Dominates(tphi.Block().Preds[i]) {
					if ph, ok := e.(*ssa.Phi); ok && ph.Block() != tphi.Block() && isLoopHeader(ph.Block()) {
						start = ph
					}
				}
			}
			if start == nil {
				continue
			}
			header := start.Block()
			loop := naturalLoop(header)
			okExit := true
			for b := range loop {
				for _, su := range b.Succs {
					if !loop[su] && b != header {
						okExit = false
					}
				}
			}
			okBound := false
			for _, in2 := range header.Instrs {
				phi, ok := in2.(*ssa.Phi)
				if !ok || phi == start {
					continue
				}
				l, w := findCountedLoop(phi)
				if w != "" {
					for _, ref := range *phi.Referrers() {
						if b, ok := ref.(*ssa.BinOp); ok && b.Op == token.ADD {
							if l2, w2 := findCountedLoopAny(phi, b); w2 == "" {
								l, w = l2, ""
							}
						}
					}
				}
				if w == "" && l != nil {
					if bl, ok := l.bound.(*ssa.Call); ok {
						if bi, ok := bl.Call.Value.(*ssa.Builtin); ok && bi.Name() == "len" && bl.Call.Args[0] == ssa.Value(f.Params[0]) {
							okBound = true
						}
					}
				}
			}
			n++
			r.check(okBound, "T-START", fname(f), "searches the whole table", c.pos(start.Pos()),
				"the best cell is searched by a loop over the whole table parameter", "the loop that looks for the best cell does not count over len of the whole table")
			r.holds("T-START", fname(f), "starts at the cell found", c.pos(start.Pos()), "the walk starts at the running best index of the search loop, unchanged")
			r.check(okExit, "T-START", fname(f), "visits every cell", c.pos(start.Pos()),
				"the search loop is left only at its end", "the search for the best cell leaves its loop early")
		}
	}
	r.floor("T-START", n, 1, "calls of the best-cell search in Local's traceback")
}

// rulesStepsAsTraced (AS-TRACED): what Global and Local return as steps and score is what their traceback produced,
// as it is: the steps value goes nowhere but into the return (no pass through a "normalising" helper, no edit in
// place), and the score returned is the traceback's score. Re-ordering or merging steps after the walk makes them
// describe another path than the one that was scored.
func rulesStepsAsTraced(c *Ctx, r *Report) {
	n := 0
	for _, spec := range []struct{ name, role string }{{"Global", "align.traceGlobal"}, {"Local", "align.traceLocal"}} {
		a := loadAlign(c, r, spec.name, spec.role)
		if a == nil {
			continue
		}
		where := fname(a.entry)
		nres := a.trace.Call.Signature().Results().Len()
		// the extracts of the trace call
		ex := map[int]*ssa.Extract{}
		for _, ref := range *a.trace.Referrers() {
			if e, ok := ref.(*ssa.Extract); ok {
				ex[e.Index] = e
			}
		}
		var bad []string
		nRet := 0
		instrs(a.entry, func(in ssa.Instruction) {
			rt, ok := in.(*ssa.Return)
			if !ok {
				return
			}
			nRet++
			ops := retOperands(rt)
			if len(ops) < 2 {
				bad = append(bad, "a return with fewer than two results at "+c.pos(rt.Pos()))
				return
			}
			// a named result assigned once stands for what was assigned
			for i, o := range ops {
				if ld, ok := o.(*ssa.UnOp); ok && ld.Op == token.MUL {
					if al, ok := ld.X.(*ssa.Alloc); ok {
						if v := cellValue(al); v != nil {
							ops[i] = v
						}
					}
				}
			}
			if e0, ok := ex[0]; !ok || ops[0] != ssa.Value(e0) {
				bad = append(bad, "the steps returned at "+c.pos(rt.Pos())+" are "+a.es.expr(ops[0]).String()+", not the traceback's steps as they are")
			}
			if eS, ok := ex[nres-1]; !ok || ops[len(ops)-1] != ssa.Value(eS) {
				bad = append(bad, "the score returned at "+c.pos(rt.Pos())+" is not the traceback's score as it is")
			}
		})
		if e0, ok := ex[0]; ok {
			for _, ref := range *e0.Referrers() {
				switch x := ref.(type) {
				case *ssa.Return, *ssa.DebugRef:
				case *ssa.Store:
					if _, isAl := x.Addr.(*ssa.Alloc); !isAl || x.Val != ssa.Value(e0) {
						bad = append(bad, "the traceback's steps are stored at "+c.pos(ref.Pos()))
					}
				default:
					bad = append(bad, fmt.Sprintf("the traceback's steps are also used by %T at %s", ref, c.pos(ref.Pos())))
				}
			}
		}
		n++
		sort.Strings(bad)
		r.check(len(bad) == 0 && nRet > 0, "AS-TRACED", where, "steps and score as traced", c.pos(a.trace.Pos()),
			"the steps and the score returned are the traceback's own results, handed on unchanged",
			"what is returned is not what the traceback produced: "+strings.Join(bad, "; ")+" — the steps no longer describe the path that was scored")
	}
	r.floor("AS-TRACED", n, 2, "Global and Local")
}
