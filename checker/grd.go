package main

// E-GRD — guarded index / slice / make. Every site is split into goals, each a linear inequality
// over symbols (len(v) of an SSA value, or an integer SSA value); facts come from dominating branch
// edges, length algebra, integer lower bounds, predicate summaries of module functions (P8) and
// inductive lower bounds for loop-carried slices (P9). No solver: one subtraction per fact.

import (
	"fmt"
	"go/constant"
	"go/token"
	"go/types"
	"os"
	"sort"
	"strings"

	"golang.org/x/tools/go/ssa"
)

type gsym struct {
	v     ssa.Value
	isLen bool
}

type glin struct {
	c int64
	t map[gsym]int64
}

func gk(c int64) glin { return glin{c: c, t: map[gsym]int64{}} }
func gs(s gsym) glin  { return glin{t: map[gsym]int64{s: 1}} }
func (a glin) add(b glin, k int64) glin {
	r := glin{c: a.c + k*b.c, t: map[gsym]int64{}}
	for s, x := range a.t {
		r.t[s] = x
	}
	for s, x := range b.t {
		r.t[s] += k * x
		if r.t[s] == 0 {
			delete(r.t, s)
		}
	}
	return r
}
func (a glin) isConst() bool { return len(a.t) == 0 }
func (a glin) nonneg() bool {
	if a.c < 0 {
		return false
	}
	for s, x := range a.t {
		if x < 0 || !s.isLen {
			return false
		}
	}
	return true
}

type gfact struct {
	e   glin // e >= 0, or e == 0 if eq, or e != 0 if neq
	eq  bool
	neq bool
}

type gprover struct {
	c     *Ctx
	fn    *ssa.Function
	sy    *symb
	inv   []gfact
	invOK bool
	pure  int
	canon map[string]ssa.Value
	depth int
	// asserted: per call, the facts its callee establishes by panicking otherwise
	asserted map[*ssa.Call][]gfact
}

func newProver(c *Ctx, fn *ssa.Function) *gprover {
	return &gprover{c: c, fn: fn, sy: newSymb(fn), canon: map[string]ssa.Value{}}
}

func (p *gprover) str(a glin) string {
	var parts []string
	for s, x := range a.t {
		n := p.sy.expr(s.v).String()
		if s.isLen {
			n = "len(" + n + ")"
		}
		parts = append(parts, fmt.Sprintf("%+d*%s", x, n))
	}
	sort.Strings(parts)
	return fmt.Sprintf("%d %s", a.c, strings.Join(parts, " "))
}

func gConstInt(v ssa.Value) (int64, bool) {
	c, ok := v.(*ssa.Const)
	if !ok || c.Value == nil || c.Value.Kind() != constant.Int {
		return 0, false
	}
	return c.Int64(), true
}

// forward a single dominating store to a field of a local struct
func (p *gprover) forward(u *ssa.UnOp) ssa.Value {
	fa, ok := u.X.(*ssa.FieldAddr)
	if !ok {
		return nil
	}
	al, ok := fa.X.(*ssa.Alloc)
	if !ok {
		return nil
	}
	var stores []*ssa.Store
	for _, r := range *al.Referrers() {
		if fa2, ok := r.(*ssa.FieldAddr); ok && fa2.Field == fa.Field {
			for _, r2 := range *fa2.Referrers() {
				if s, ok := r2.(*ssa.Store); ok && s.Addr == ssa.Value(fa2) {
					stores = append(stores, s)
				}
			}
		}
	}
	if len(stores) == 1 && instrDominates(stores[0], u) {
		return stores[0].Val
	}
	return nil
}

func (p *gprover) lenOf(v ssa.Value) glin {
	switch x := v.(type) {
	case *ssa.Slice:
		base := p.lenOf(x.X)
		if pt, ok := x.X.Type().Underlying().(*types.Pointer); ok {
			if arr, ok := pt.Elem().Underlying().(*types.Array); ok {
				base = gk(arr.Len())
			}
		}
		lo := gk(0)
		if x.Low != nil {
			lo = p.val(x.Low)
		}
		if x.High != nil {
			return p.val(x.High).add(lo, -1)
		}
		return base.add(lo, -1)
	case *ssa.MakeSlice:
		return p.val(x.Len)
	case *ssa.Call:
		if b, ok := x.Call.Value.(*ssa.Builtin); ok && b.Name() == "append" && len(x.Call.Args) == 2 {
			return p.lenOf(x.Call.Args[0]).add(p.lenOf(x.Call.Args[1]), 1)
		}
		// snm.At(t, at) has len(at) elements
		if callee := x.Call.StaticCallee(); callee != nil && qname(callee) == gostuffPath+"/snm.At" && len(x.Call.Args) == 2 {
			return p.lenOf(x.Call.Args[1])
		}
		// a module helper every return of which hands back one of its slice parameters with k elements appended
		// (push helpers): len = len(argument) + k
		if g := x.Call.StaticCallee(); g != nil && g.Blocks != nil && p.c.inModule(g) && g.Signature.Results().Len() == 1 && len(g.Params) == len(x.Call.Args) {
			pj, add, ok := -1, int64(0), true
			n := 0
			instrs(g, func(in ssa.Instruction) {
				rt, isRt := in.(*ssa.Return)
				if !isRt || !ok {
					return
				}
				n++
				ops := retOperands(rt)
				if len(ops) != 1 {
					ok = false
					return
				}
				v, k := ops[0], int64(0)
				for {
					cl, isCall := v.(*ssa.Call)
					if !isCall {
						break
					}
					b, isB := cl.Call.Value.(*ssa.Builtin)
					if !isB || b.Name() != "append" || len(cl.Call.Args) != 2 {
						ok = false
						return
					}
					more := (&gprover{c: p.c, fn: g}).lenOf(cl.Call.Args[1])
					if !more.isConst() {
						ok = false
						return
					}
					k += more.c
					v = cl.Call.Args[0]
				}
				j := -1
				for i, par := range g.Params {
					if v == ssa.Value(par) {
						j = i
					}
				}
				if j < 0 || (pj >= 0 && (pj != j || add != k)) {
					ok = false
					return
				}
				pj, add = j, k
			})
			if ok && n > 0 && pj >= 0 {
				return p.lenOf(x.Call.Args[pj]).add(gk(add), 1)
			}
		}
	case *ssa.Extract:
		// result k of a module function every return of which hands back, at k, a slice of one and the same
		// constant length (made with it, or an array sliced whole)
		if cl, ok := x.Tuple.(*ssa.Call); ok {
			if g := cl.Call.StaticCallee(); g != nil && g.Blocks != nil && p.c.inModule(g) {
				L, n, okAll := int64(-1), 0, true
				gp := &gprover{c: p.c, fn: g}
				instrs(g, func(in ssa.Instruction) {
					rt, isRt := in.(*ssa.Return)
					if !isRt || !okAll {
						return
					}
					ops := retOperands(rt)
					if x.Index >= len(ops) {
						okAll = false
						return
					}
					l := gp.lenOf(ops[x.Index])
					if !l.isConst() || (L >= 0 && l.c != L) {
						okAll = false
						return
					}
					L = l.c
					n++
				})
				if okAll && n > 0 && L >= 0 {
					return gk(L)
				}
			}
		}
	case *ssa.UnOp:
		if x.Op == token.MUL {
			if f := p.forward(x); f != nil {
				return p.lenOf(f)
			}
		}
	case *ssa.Const:
		if x.Value != nil && x.Value.Kind() == constant.String {
			return gk(int64(len(constant.StringVal(x.Value))))
		}
		if x.Value == nil {
			return gk(0)
		}
	case *ssa.ChangeType:
		return p.lenOf(x.X)
	case *ssa.Convert:
		// string <-> []byte keeps the length
		if _, ok := x.X.Type().Underlying().(*types.Slice); ok {
			return p.lenOf(x.X)
		}
		if bt, ok := x.X.Type().Underlying().(*types.Basic); ok && bt.Info()&types.IsString != 0 {
			return p.lenOf(x.X)
		}
	}
	return gs(gsym{p.canonV(v), true})
}

// canonV maps equal pure projections (constant Index/Field of one SSA value; loads of a local array or
// struct that is only stored whole before the loads) to one representative.
func (p *gprover) canonV(v ssa.Value) ssa.Value {
	switch x := v.(type) {
	case *ssa.Index:
		if c, ok := gConstInt(x.Index); ok {
			k := fmt.Sprintf("idx/%p/%d", p.canonV(x.X), c)
			if r, ok := p.canon[k]; ok {
				return r
			}
			p.canon[k] = v
		}
	case *ssa.UnOp:
		if x.Op != token.MUL {
			return v
		}
		if p.noHeapStores() {
			k := "load/" + p.sy.expr(x.X).String()
			if r, ok := p.canon[k]; ok {
				return r
			}
			p.canon[k] = v
			return v
		}
		// a variable's own cell (possibly captured by a closure that only reads it): loads taken after the last
		// store can have executed see the same value
		if cell, ok := x.X.(*ssa.Alloc); ok && settledLoad(cell, x) {
			k := fmt.Sprintf("cell/%p", cell)
			if r, ok := p.canon[k]; ok {
				return r
			}
			p.canon[k] = v
			return v
		}
		// element k of a slice a call returned and that this function only reads (indexing, slicing, len, range):
		// every load of it sees the same value
		if a, ok := x.X.(*ssa.IndexAddr); ok {
			if c, ok := gConstInt(a.Index); ok {
				var cl ssa.Value
				if x2, isCall := a.X.(*ssa.Call); isCall {
					cl = x2
				} else if ex, isEx := a.X.(*ssa.Extract); isEx {
					if _, isCall := ex.Tuple.(*ssa.Call); isCall {
						cl = ex
					}
				}
				if cl != nil && onlyRead(cl, 0) {
					k := fmt.Sprintf("fresh/%p/[%d]", cl, c)
					if r, ok := p.canon[k]; ok {
						return r
					}
					p.canon[k] = v
					return v
				}
			}
		}
		var al *ssa.Alloc
		path := ""
		switch a := x.X.(type) {
		case *ssa.IndexAddr:
			if c, ok := gConstInt(a.Index); ok {
				al, _ = a.X.(*ssa.Alloc)
				path = fmt.Sprintf("[%d]", c)
			}
		case *ssa.FieldAddr:
			al, _ = a.X.(*ssa.Alloc)
			path = fmt.Sprintf(".%d", a.Field)
		}
		if al == nil || !readOnlyAfterInit(al, x) {
			return v
		}
		k := fmt.Sprintf("mem/%p/%s", al, path)
		if r, ok := p.canon[k]; ok {
			return r
		}
		p.canon[k] = v
	case *ssa.Field:
		k := fmt.Sprintf("fld/%p/%d", p.canonV(x.X), x.Field)
		if r, ok := p.canon[k]; ok {
			return r
		}
		p.canon[k] = v
	}
	return v
}

// noHeapStores: the function (not its closures) performs no store, map update or call that could modify
// memory other than its own locals — loads of the same address expression then yield the same value.
func (p *gprover) noHeapStores() bool {
	if p.pure != 0 {
		return p.pure == 1
	}
	p.pure = 1
	instrs(p.fn, func(in ssa.Instruction) {
		switch x := in.(type) {
		case *ssa.Store:
			if _, ok := x.Addr.(*ssa.Alloc); ok {
				return // a variable's own cell (possibly captured): no existing memory is modified
			}
			if ia, ok := x.Addr.(*ssa.IndexAddr); ok {
				if al, ok := ia.X.(*ssa.Alloc); ok && al.Comment == "varargs" {
					return
				}
			}
			p.pure = 2
		case *ssa.MapUpdate:
			p.pure = 2
		case ssa.CallInstruction:
			cc := x.Common()
			if _, ok := cc.Value.(*ssa.Builtin); ok {
				return
			}
			callee := cc.StaticCallee()
			if callee == nil {
				p.pure = 2
				return
			}
			qn := qname(callee)
			if effPureStd[qn] || effFreshStd[qn] || qn == "sort.Search" || strings.HasPrefix(qn, "strconv.") || strings.HasPrefix(qn, "strings.") || strings.HasPrefix(qn, "fmt.") {
				return
			}
			if p.c.inScope(callee) && callee.Blocks != nil {
				s := effFor(p.c).summarize(callee)
				if len(s.writes) == 0 && len(s.gwrites) == 0 && len(s.unknown) == 0 {
					return
				}
			}
			p.pure = 2
		}
	})
	return p.pure == 1
}

func readOnlyAfterInit(al *ssa.Alloc, load *ssa.UnOp) bool {
	for _, r := range *al.Referrers() {
		switch y := r.(type) {
		case *ssa.Store:
			if y.Addr != ssa.Value(al) || !y.Block().Dominates(load.Block()) {
				return false
			}
		case *ssa.IndexAddr:
			for _, r2 := range *y.Referrers() {
				if u, ok := r2.(*ssa.UnOp); !ok || u.Op != token.MUL {
					return false
				}
			}
		case *ssa.FieldAddr:
			for _, r2 := range *y.Referrers() {
				if u, ok := r2.(*ssa.UnOp); !ok || u.Op != token.MUL {
					return false
				}
			}
		case *ssa.UnOp, *ssa.DebugRef:
		default:
			return false
		}
	}
	return true
}

func (p *gprover) val(v ssa.Value) glin {
	if c, ok := gConstInt(v); ok {
		return gk(c)
	}
	switch x := v.(type) {
	case *ssa.Call:
		if b, ok := x.Call.Value.(*ssa.Builtin); ok && b.Name() == "len" {
			return p.lenOf(x.Call.Args[0])
		}
	case *ssa.BinOp:
		switch x.Op {
		case token.ADD:
			return p.val(x.X).add(p.val(x.Y), 1)
		case token.SUB:
			return p.val(x.X).add(p.val(x.Y), -1)
		case token.MUL:
			if c, ok := gConstInt(x.Y); ok {
				return gk(0).add(p.val(x.X), c)
			}
			if c, ok := gConstInt(x.X); ok {
				return gk(0).add(p.val(x.Y), c)
			}
		}
	case *ssa.Convert:
		if bt, ok := x.X.Type().Underlying().(*types.Basic); ok && bt.Info()&types.IsInteger != 0 {
			if bt2, ok := x.Type().Underlying().(*types.Basic); ok && bt2.Info()&types.IsInteger != 0 && bt2.Info()&types.IsUnsigned == 0 {
				// widening/same-size signed conversion of an int value keeps it (narrowing is not assumed)
				if p.c.sizeof(x.Type()) >= p.c.sizeof(x.X.Type()) {
					return p.val(x.X)
				}
			}
		}
	}
	return gs(gsym{v, false})
}

func (c *Ctx) sizeof(t types.Type) int64 {
	for _, p := range c.Pkgs {
		if p.TypesSizes != nil {
			return p.TypesSizes.Sizeof(t)
		}
	}
	return 8
}

// facts known at block b from dominating branch edges (plus invariants).
func (p *gprover) facts(b *ssa.BasicBlock) []gfact {
	fs := p.factsDom(b)
	// merge bounded on every way in (rotated loops, `for i := range n`): if every edge into the merge's block is the
	// true edge of `incoming value < B` for one and the same B, then merge < B in everything that block dominates
	for d := b; d != nil; d = d.Idom() {
		for _, in := range d.Instrs {
			phi, ok := in.(*ssa.Phi)
			if !ok {
				break
			}
			if bt, ok := phi.Type().Underlying().(*types.Basic); !ok || bt.Info()&types.IsInteger == 0 {
				continue
			}
			var bound ssa.Value
			all := len(phi.Edges) > 0
			for j, e := range phi.Edges {
				pr := d.Preds[j]
				iff, ok := lastInstr(pr).(*ssa.If)
				if !ok || pr.Succs[0] != d || pr.Succs[1] == d {
					all = false
					break
				}
				bo, ok := iff.Cond.(*ssa.BinOp)
				if !ok || bo.Op != token.LSS {
					all = false
					break
				}
				same := bo.X == e
				if !same {
					if k1, ok1 := gConstInt(bo.X); ok1 {
						if k2, ok2 := gConstInt(e); ok2 && k1 == k2 {
							same = true
						}
					}
				}
				if !same || (bound != nil && bound != bo.Y) {
					all = false
					break
				}
				bound = bo.Y
			}
			if all && bound != nil {
				fs = append(fs, gfact{e: p.val(bound).add(p.val(phi), -1).add(gk(1), -1)})
			}
		}
	}
	// phi edge elimination: a dominating fact `phi != k` rules out the incoming edges on which the phi is the
	// constant k; when a single edge remains, control came along it, and what held at its source block still
	// holds (for values not redefined by the phi's own block).
	n := len(fs)
	for i := 0; i < n; i++ {
		f := fs[i]
		if !f.neq || len(f.e.t) != 1 {
			continue
		}
		for sym, coef := range f.e.t {
			phi, ok := sym.v.(*ssa.Phi)
			if !ok || sym.isLen || (coef != 1 && coef != -1) || !phi.Block().Dominates(b) {
				continue
			}
			k := -f.e.c * coef
			var remaining []int
			for j, e := range phi.Edges {
				if c, ok := gConstInt(e); ok && c == k {
					continue
				}
				remaining = append(remaining, j)
			}
			if len(remaining) != 1 {
				continue
			}
			src := phi.Block().Preds[remaining[0]]
			for _, sf := range p.factsDom(src) {
				mentionsLocalPhi := false
				for s2 := range sf.e.t {
					if in, ok := s2.v.(ssa.Instruction); ok {
						if _, isPhi := in.(*ssa.Phi); isPhi && in.Block() == phi.Block() {
							mentionsLocalPhi = true
						}
					}
				}
				if !mentionsLocalPhi {
					fs = append(fs, sf)
				}
			}
			// and the phi equals the value on that edge
			fs = append(fs, gfact{e: gs(sym).add(p.val(phi.Edges[remaining[0]]), -1), eq: true})
		}
	}
	return fs
}

func (p *gprover) factsDom(b *ssa.BasicBlock) []gfact {
	var fs []gfact
	fs = append(fs, p.inv...)
	for cur := b; cur.Idom() != nil; cur = cur.Idom() {
		d := cur.Idom()
		for _, in := range d.Instrs {
			if call, ok := in.(*ssa.Call); ok {
				fs = append(fs, p.assertionFacts(call)...)
			}
		}
		iff, ok := d.Instrs[len(d.Instrs)-1].(*ssa.If)
		if !ok {
			continue
		}
		edge := -1
		if d.Succs[0] == cur && d.Succs[1] != cur && len(cur.Preds) == 1 {
			edge = 0
		} else if d.Succs[1] == cur && d.Succs[0] != cur && len(cur.Preds) == 1 {
			edge = 1
		} else if d.Succs[0] != d.Succs[1] {
			if d.Succs[0].Dominates(cur) && len(d.Succs[0].Preds) == 1 {
				edge = 0
			} else if d.Succs[1].Dominates(cur) && len(d.Succs[1].Preds) == 1 {
				edge = 1
			}
		}
		if edge < 0 {
			continue
		}
		fs = append(fs, p.condFacts(iff.Cond, edge == 0)...)
	}
	return fs
}

func (p *gprover) condFacts(c ssa.Value, truth bool) []gfact {
	switch x := c.(type) {
	case *ssa.Call:
		if callee := x.Call.StaticCallee(); callee != nil && truth && callee.Blocks != nil && p.c.inScope(callee) {
			return predicateFacts(p.c, callee, x.Call.Args, p)
		}
	case *ssa.UnOp:
		if x.Op == token.NOT {
			return p.condFacts(x.X, !truth)
		}
	case *ssa.BinOp:
		op := x.Op
		// `err == nil` for the error result of a module function: the slice results of the same call then come from
		// the returns whose error is nil — if those all hand back one and the same constant length, that is the length
		// (a splitter that returns (nil, err) or (three parts, nil))
		if (op == token.EQL && truth) || (op == token.NEQ && !truth) {
			for _, pr := range [][2]ssa.Value{{x.X, x.Y}, {x.Y, x.X}} {
				ex, isEx := pr[0].(*ssa.Extract)
				if !isEx || !isNilConst(pr[1]) || !isErrorType(ex.Type()) {
					continue
				}
				cl, isCall := ex.Tuple.(*ssa.Call)
				if !isCall {
					continue
				}
				g := cl.Call.StaticCallee()
				if g == nil || g.Blocks == nil || !p.c.inModule(g) || cl.Referrers() == nil {
					continue
				}
				var out []gfact
				for _, ref := range *cl.Referrers() {
					sib, ok := ref.(*ssa.Extract)
					if !ok || sib.Index == ex.Index {
						continue
					}
					if _, isSl := sib.Type().Underlying().(*types.Slice); !isSl {
						continue
					}
					L, n, okAll := int64(-1), 0, true
					gp := &gprover{c: p.c, fn: g}
					instrs(g, func(in ssa.Instruction) {
						rt, isRt := in.(*ssa.Return)
						if !isRt || !okAll {
							return
						}
						ops := retOperands(rt)
						if sib.Index >= len(ops) || ex.Index >= len(ops) {
							okAll = false
							return
						}
						if !isNilConst(ops[ex.Index]) {
							// a return whose error may be non-nil: it must be an error that is never nil for the return
							// to be excluded
							if !definitelyNonNilErr(ops[ex.Index]) {
								okAll = false
							}
							return
						}
						l := gp.lenOf(ops[sib.Index])
						if !l.isConst() || (L >= 0 && l.c != L) {
							okAll = false
							return
						}
						L = l.c
						n++
					})
					if okAll && n > 0 && L >= 0 {
						out = append(out, gfact{e: p.lenOf(sib).add(gk(L), -1), eq: true})
					}
				}
				if len(out) > 0 {
					return out
				}
			}
		}
		if bt, ok := x.X.Type().Underlying().(*types.Basic); ok && bt.Info()&types.IsString != 0 {
			if (op == token.EQL && truth) || (op == token.NEQ && !truth) {
				return []gfact{{e: p.lenOf(x.X).add(p.lenOf(x.Y), -1), eq: true}}
			}
			if (op == token.NEQ && truth) || (op == token.EQL && !truth) {
				for _, pr := range [][2]ssa.Value{{x.X, x.Y}, {x.Y, x.X}} {
					if cy, ok := pr[1].(*ssa.Const); ok && cy.Value != nil && cy.Value.Kind() == constant.String && constant.StringVal(cy.Value) == "" {
						return []gfact{{e: p.lenOf(pr[0]).add(gk(1), -1)}}
					}
				}
			}
			return nil
		}
		if bt, ok := x.X.Type().Underlying().(*types.Basic); !ok || bt.Info()&types.IsInteger == 0 {
			return nil
		}
		if !truth {
			switch op {
			case token.LSS:
				op = token.GEQ
			case token.LEQ:
				op = token.GTR
			case token.GTR:
				op = token.LEQ
			case token.GEQ:
				op = token.LSS
			case token.EQL:
				op = token.NEQ
			case token.NEQ:
				op = token.EQL
			}
		}
		l, r := p.val(x.X), p.val(x.Y)
		d := l.add(r, -1)
		switch op {
		case token.GEQ:
			return []gfact{{e: d}}
		case token.GTR:
			return []gfact{{e: d.add(gk(1), -1)}}
		case token.LEQ:
			return []gfact{{e: gk(0).add(d, -1)}}
		case token.LSS:
			return []gfact{{e: gk(0).add(d, -1).add(gk(1), -1)}}
		case token.EQL:
			return []gfact{{e: d, eq: true}}
		case token.NEQ:
			return []gfact{{e: d, neq: true}}
		}
	}
	return nil
}

// predicateFacts (P8): facts that hold whenever callee returns true, mapped from parameters to arguments.
func predicateFacts(c *Ctx, callee *ssa.Function, args []ssa.Value, caller *gprover) []gfact {
	if callee.Signature.Results().Len() != 1 {
		return nil
	}
	q := newProver(c, callee)
	var out []gfact
	first := true
	for _, b := range callee.Blocks {
		ret, ok := b.Instrs[len(b.Instrs)-1].(*ssa.Return)
		if !ok || len(ret.Results) != 1 {
			continue
		}
		var blocks []*ssa.BasicBlock
		switch r := ret.Results[0].(type) {
		case *ssa.Const:
			if r.Value != nil && r.Value.Kind() == constant.Bool && constant.BoolVal(r.Value) {
				blocks = append(blocks, b)
			}
		case *ssa.Phi:
			if r.Block() == b {
				for i, e := range r.Edges {
					if k, ok := e.(*ssa.Const); ok && k.Value != nil && !constant.BoolVal(k.Value) {
						continue
					}
					blocks = append(blocks, b.Preds[i])
				}
			} else {
				blocks = append(blocks, b)
			}
		default:
			blocks = append(blocks, b)
		}
		for _, pb := range blocks {
			fs := q.facts(pb)
			if first {
				out, first = fs, false
			} else {
				var keep []gfact
				for _, f := range out {
					for _, g := range fs {
						if q.str(f.e) == q.str(g.e) && f.eq == g.eq && f.neq == g.neq {
							keep = append(keep, f)
							break
						}
					}
				}
				out = keep
			}
		}
	}
	return mapCalleeFacts(callee, args, caller, out)
}

// mapCalleeFacts restates facts over a callee's parameters in the caller's terms: a parameter is its argument,
// len(parameter) the argument's length, and `parameter % k` the same remainder of the argument.
func mapCalleeFacts(callee *ssa.Function, args []ssa.Value, caller *gprover, out []gfact) []gfact {
	paramIdx := func(v ssa.Value) int {
		for i, pr := range callee.Params {
			if ssa.Value(pr) == v && i < len(args) {
				return i
			}
		}
		return -1
	}
	var mapped []gfact
	for _, f := range out {
		e := gk(f.e.c)
		ok := true
		for s, k := range f.e.t {
			if b, isB := s.v.(*ssa.BinOp); isB && !s.isLen && b.Op == token.REM {
				if m, isC := gConstInt(b.Y); isC && m > 0 {
					if idx := paramIdx(b.X); idx >= 0 {
						e = e.add(gs(gsym{v: caller.remOf(args[idx], b), isLen: false}), k)
						continue
					}
				}
			}
			idx := paramIdx(s.v)
			if idx < 0 {
				ok = false
				break
			}
			if s.isLen {
				e = e.add(caller.lenOf(args[idx]), k)
			} else {
				e = e.add(caller.val(args[idx]), k)
			}
		}
		if ok {
			mapped = append(mapped, gfact{e: e, eq: f.eq, neq: f.neq})
		}
	}
	return mapped
}

// remOf: the caller's stand-in for `arg % k`, where the callee computed `param % k` (one per argument and k).
func (p *gprover) remOf(arg ssa.Value, b *ssa.BinOp) ssa.Value {
	m, _ := gConstInt(b.Y)
	key := fmt.Sprintf("rem/%p/%d", arg, m)
	if v, ok := p.canon[key]; ok {
		return v
	}
	v := &ssa.BinOp{Op: token.REM, X: arg, Y: b.Y}
	p.canon[key] = v
	return v
}

// assertionFacts: what holds after a call to a module function that refuses some arguments by panicking: the facts
// common to all its returns, in the caller's terms (`requireWholeCodons(len(src))` leaves len(src) % 3 == 0).
func (p *gprover) assertionFacts(call *ssa.Call) []gfact {
	if fs, ok := p.asserted[call]; ok {
		return fs
	}
	if p.asserted == nil {
		p.asserted = map[*ssa.Call][]gfact{}
	}
	p.asserted[call] = nil
	callee := call.Call.StaticCallee()
	if callee == nil || callee.Blocks == nil || !p.c.inScope(callee) || p.depth >= 2 || callee == p.fn {
		return nil
	}
	panics := false
	instrs(callee, func(in ssa.Instruction) {
		if _, ok := in.(*ssa.Panic); ok {
			panics = true
		}
	})
	if !panics {
		return nil
	}
	q := newProver(p.c, callee)
	q.depth = p.depth + 1
	var out []gfact
	first := true
	for _, b := range callee.Blocks {
		if _, ok := b.Instrs[len(b.Instrs)-1].(*ssa.Return); !ok {
			continue
		}
		fs := q.facts(b)
		if first {
			out, first = fs, false
			continue
		}
		var keep []gfact
		for _, f := range out {
			for _, g := range fs {
				if q.str(f.e) == q.str(g.e) && f.eq == g.eq && f.neq == g.neq {
					keep = append(keep, f)
					break
				}
			}
		}
		out = keep
	}
	fs := mapCalleeFacts(callee, call.Call.Args, p, out)
	p.asserted[call] = fs
	return fs
}

// invariants (P9): inductive lower bounds len(phi) >= L for the slice-typed phis of fn.
// callSiteFacts: for an unexported function with exactly one call site in the module (and never used as a
// value), what the caller knows at that site about the arguments holds for the parameters.
func (p *gprover) callSiteFacts() []gfact {
	fn := p.fn
	if p.depth >= 2 || fn.Parent() != nil || fn.Pkg == nil {
		return nil
	}
	if n := fn.Name(); n == "" || (n[0] >= 'A' && n[0] <= 'Z') || fn.Signature.Recv() != nil && false {
		return nil
	}
	var site *ssa.Call
	nSites, asValue := 0, false
	for _, g := range p.c.moduleFuncs() {
		instrs(g, func(in ssa.Instruction) {
			var ops []*ssa.Value
			for _, op := range in.Operands(ops) {
				if *op == ssa.Value(fn) {
					if cl, ok := in.(*ssa.Call); ok && cl.Call.Value == ssa.Value(fn) {
						site = cl
						nSites++
					} else {
						asValue = true
					}
				}
			}
		})
	}
	if nSites != 1 || asValue || site == nil {
		return nil
	}
	caller := site.Parent()
	if caller == fn {
		return nil
	}
	pc := newProver(p.c, caller)
	pc.depth = p.depth + 1
	pc.invariants()
	argOf := map[ssa.Value]ssa.Value{}
	for i, a := range site.Call.Args {
		if i < len(fn.Params) {
			argOf[a] = fn.Params[i]
			argOf[pc.canonV(a)] = fn.Params[i]
		}
	}
	// a sliced argument x[k:]: len(x) = len(param) + k
	type lenRel struct {
		par ssa.Value
		k   int64
	}
	lenVia := map[gsym]lenRel{}
	for i, a := range site.Call.Args {
		if i >= len(fn.Params) {
			break
		}
		if _, isSl := a.(*ssa.Slice); !isSl {
			continue
		}
		L := pc.lenOf(a)
		if len(L.t) == 1 {
			for sym, coef := range L.t {
				if coef == 1 && sym.isLen {
					lenVia[sym] = lenRel{fn.Params[i], L.c} // len(param) = len(x) + L.c
				}
			}
		}
	}
	var out []gfact
	for _, f := range pc.facts(site.Block()) {
		ok := true
		t := glin{c: f.e.c, t: map[gsym]int64{}}
		for sym, k := range f.e.t {
			par, found := argOf[sym.v]
			if !found {
				par, found = argOf[pc.canonV(sym.v)]
			}
			if !found {
				if rel, viaLen := lenVia[sym]; viaLen {
					// len(x) = len(param) - L.c
					t.t[gsym{v: rel.par, isLen: true}] += k
					t.c -= k * rel.k
					continue
				}
				ok = false
				break
			}
			t.t[gsym{v: par, isLen: sym.isLen}] += k
		}
		if ok && len(t.t) > 0 {
			out = append(out, gfact{e: t, eq: f.eq, neq: f.neq})
		}
	}
	return out
}

func (p *gprover) invariants() {
	if p.invOK {
		return
	}
	p.invOK = true
	p.inv = append(p.inv, p.callSiteFacts()...)
	var phis []*ssa.Phi
	instrs(p.fn, func(in ssa.Instruction) {
		if phi, ok := in.(*ssa.Phi); ok {
			if _, ok := phi.Type().Underlying().(*types.Slice); ok {
				phis = append(phis, phi)
			}
		}
	})
	if len(phis) == 0 {
		return
	}
	L := int64(1 << 40)
	for _, phi := range phis {
		for _, e := range phi.Edges {
			le := p.lenOf(e)
			if le.isConst() && le.c < L {
				L = le.c
			}
		}
	}
	if L == 1<<40 || L <= 0 {
		return
	}
	var assume []gfact
	for _, phi := range phis {
		assume = append(assume, gfact{e: gs(gsym{phi, true}).add(gk(L), -1)})
	}
	p.inv = assume
	for _, phi := range phis {
		for i, e := range phi.Edges {
			g := p.lenOf(e).add(gk(L), -1)
			if ok, _ := p.prove(g, p.facts(phi.Block().Preds[i])); !ok {
				p.inv = nil
				return
			}
		}
	}
}

// glb: lower bound of an integer value; ok=false if unknown.
func glb(v ssa.Value, seen map[ssa.Value]bool) (int64, bool) {
	if c, ok := gConstInt(v); ok {
		return c, true
	}
	if seen[v] {
		return 1 << 40, true
	}
	seen[v] = true
	defer delete(seen, v)
	switch x := v.(type) {
	case *ssa.Phi:
		m := int64(1 << 40)
		for _, e := range x.Edges {
			if b, ok := e.(*ssa.BinOp); ok && b.Op == token.ADD && b.X == ssa.Value(x) {
				if c, ok := gConstInt(b.Y); ok && c >= 0 {
					continue
				}
			}
			l, ok := glb(e, seen)
			if !ok {
				return 0, false
			}
			if l < m {
				m = l
			}
		}
		return m, true
	case *ssa.BinOp:
		if c, ok := gConstInt(x.Y); ok {
			if l, ok := glb(x.X, seen); ok {
				switch x.Op {
				case token.ADD:
					return l + c, true
				case token.SUB:
					return l - c, true
				case token.QUO, token.REM:
					if c > 0 && l >= 0 {
						return 0, true
					}
				case token.MUL:
					if c >= 0 && l >= 0 {
						return 0, true
					}
				}
			}
		}
	case *ssa.Extract:
		if _, ok := x.Tuple.(*ssa.Next); ok {
			return 0, true
		}
	case *ssa.Call:
		if isIndexSearch(x) {
			return -1, true // strings/bytes.Index*: -1 for "absent"
		}
		if b, ok := x.Call.Value.(*ssa.Builtin); ok {
			switch b.Name() {
			case "len", "cap":
				return 0, true
			case "min":
				m := int64(1 << 40)
				for _, a := range x.Call.Args {
					l, ok := glb(a, seen)
					if !ok {
						return 0, false
					}
					if l < m {
						m = l
					}
				}
				return m, true
			}
		}
	case *ssa.Convert:
		if bt, ok := x.X.Type().Underlying().(*types.Basic); ok && bt.Info()&types.IsUnsigned != 0 {
			return 0, true
		}
	}
	if bt, ok := v.Type().Underlying().(*types.Basic); ok && bt.Info()&types.IsUnsigned != 0 {
		return 0, true
	}
	return 0, false
}

// prove goal >= 0.
func (p *gprover) prove(goal glin, fs []gfact) (bool, string) { return p.proveD(goal, fs, 0) }

func (p *gprover) proveD(goal glin, fs []gfact, depth int) (bool, string) {
	if depth > 2 {
		return false, ""
	}
	for s, k := range goal.t {
		if c, ok := s.v.(*ssa.Call); ok && !s.isLen && k < 0 {
			if b, ok := c.Call.Value.(*ssa.Builtin); ok && b.Name() == "min" {
				for _, a := range c.Call.Args {
					g := goal.add(gs(s), -k).add(p.val(a), k)
					if ok, why := p.proveD(g, fs, depth+1); ok {
						return true, "min: " + why
					}
				}
			}
		}
	}
	if goal.isConst() {
		return goal.c >= 0, "constant"
	}
	if goal.nonneg() {
		return true, "lengths are non-negative"
	}
	var eqs, ins, neqs []glin
	for _, f := range fs {
		switch {
		case f.eq:
			eqs = append(eqs, f.e)
		case f.neq:
			neqs = append(neqs, f.e)
		default:
			ins = append(ins, f.e)
		}
	}
	addBounds := func(t map[gsym]int64) {
		for s := range t {
			if s.isLen {
				ins = append(ins, gs(s))
				continue
			}
			if l, ok := glb(s.v, map[ssa.Value]bool{}); ok && l > -(1<<39) {
				ins = append(ins, gs(s).add(gk(l), -1))
			}
			// strings/bytes.Index*(s, …) returns a value in [-1, len(s)-1]
			if call, ok := s.v.(*ssa.Call); ok && isIndexSearch(call) {
				ins = append(ins, p.lenOf(call.Call.Args[0]).add(gs(s), -1).add(gk(1), -1))
			}
			// sort.Search(n, f) returns a value in [0, n]
			if call, ok := s.v.(*ssa.Call); ok && fnIs(call.Call.StaticCallee(), "sort", "Search") {
				ins = append(ins, gs(s), p.val(call.Call.Args[0]).add(gs(s), -1))
			}
			// (x / c) * c <= x for x >= 0, c > 0
			if b, ok := s.v.(*ssa.BinOp); ok && b.Op == token.QUO {
				if c, ok := gConstInt(b.Y); ok && c > 0 {
					dv := p.val(b.X)
					if okd, _ := p.proveD(dv, fs, depth+1); okd {
						ins = append(ins, dv.add(gs(s), -c))
					}
				}
			}
		}
	}
	addBounds(goal.t)
	for _, n := range neqs {
		addBounds(n.t)
	}
	for _, n := range neqs {
		for _, f := range append([]glin{}, ins...) {
			d := f.add(n, -1)
			if d.isConst() && d.c == 0 {
				ins = append(ins, f.add(gk(1), -1))
			}
			// e != 0 is also -e != 0 (the comparison written with its operands the other way round)
			if d = f.add(n, 1); d.isConst() && d.c == 0 {
				ins = append(ins, f.add(gk(1), -1))
			}
		}
	}
	if os.Getenv("BIOCHECK_GRD_DEBUG") != "" && depth == 0 {
		fmt.Fprintln(os.Stderr, "GRD goal:", p.str(goal))
		for _, f := range ins {
			fmt.Fprintln(os.Stderr, "   fact:", p.str(f))
		}
	}
	// quotient rule: a fact q + rest >= 0 with q = X / k (k > 0 constant, X >= 0) gives X + k*rest >= 0, because
	// k*q <= X — e.g. `c < len(src)/3` gives 3c + 3 <= len(src)
	for _, f := range append([]glin{}, ins...) {
		for sym, coef := range f.t {
			if coef != 1 || sym.isLen {
				continue
			}
			b, ok := sym.v.(*ssa.BinOp)
			if !ok || b.Op != token.QUO {
				continue
			}
			k, ok := gConstInt(b.Y)
			if !ok || k <= 0 || k > 64 {
				continue
			}
			dv := p.val(b.X)
			if okd, _ := p.proveD(dv, fs, depth+1); !okd {
				continue
			}
			rest := f.add(gs(sym), -1)
			ins = append(ins, dv.add(rest, k))
		}
	}
	// stride rule: i = 0, s, 2s, … ; len ≡ 0 (mod s) ; i < len  =>  len - i >= s
	for sym, k := range goal.t {
		if sym.isLen || k != -1 {
			continue
		}
		stride := phiStride(sym.v)
		if stride <= 1 {
			continue
		}
		for _, f := range ins {
			d := goal.add(f, -1)
			if !d.isConst() || d.c < -(stride-1) || d.c > -1 {
				continue
			}
			// f must be L - i - 1 with L divisible by the stride
			L := f.add(gs(sym), 1).add(gk(1), 1)
			for _, e := range eqs {
				if len(e.t) != 1 || e.c != 0 {
					continue
				}
				for es := range e.t {
					if b, ok := es.v.(*ssa.BinOp); ok && !es.isLen && b.Op == token.REM {
						if m, ok := gConstInt(b.Y); ok && m == stride {
							if dd := p.val(b.X).add(L, -1); dd.isConst() && dd.c == 0 {
								return true, fmt.Sprintf("stride rule: index runs in steps of %d from 0, the length is a multiple of %d, and index < length", stride, stride)
							}
						}
					}
				}
			}
		}
	}
	cands := []glin{goal}
	for _, e := range eqs {
		for _, k := range []int64{1, -1} {
			cands = append(cands, goal.add(e, k))
		}
	}
	for _, g := range cands {
		if g.isConst() && g.c >= 0 || g.nonneg() {
			return true, "equality fact"
		}
		for _, f := range ins {
			r := g.add(f, -1)
			if r.isConst() && r.c >= 0 || r.nonneg() {
				return true, "fact " + p.str(f) + " >= 0"
			}
			// the same fact used k times (k = the goal's coefficient of the fact's symbol)
			for fsym, fc := range f.t {
				if gc := g.t[fsym]; fc > 0 && gc > fc && gc%fc == 0 {
					r := g.add(f, -(gc / fc))
					if r.isConst() && r.c >= 0 || r.nonneg() {
						return true, fmt.Sprintf("fact %s >= 0 (x%d)", p.str(f), gc/fc)
					}
				}
			}
		}
	}
	if depth == 0 {
		if ok, why := p.sentinelRule(goal, fs); ok {
			return true, why
		}
	}
	return false, ""
}

// sentinelRule: a goal G about a loop variable x, at a site where another variable y of the same loop is known
// to differ from a constant s (y != s, typically "y was set": s is the value y starts with). Proves, by induction
// over the visits of the loop header, that y != s implies G(x) there: on every edge into the header, either y
// arrives as s (nothing to show), or y arrives unchanged and x unchanged (induction hypothesis), or G holds for
// the value x arrives with, from what is known on that edge. Covers `first, second := -1, -1; for … { if first
// == -1 { first = i } else { second = i } }; if second != -1 { use s[:first] }`.
func (p *gprover) sentinelRule(goal glin, fs []gfact) (bool, string) {
	for xs, k1 := range goal.t {
		if xs.isLen || k1 == 0 {
			continue
		}
		x, ok := xs.v.(*ssa.Phi)
		if !ok || !isLoopHeader(x.Block()) {
			continue
		}
		h := x.Block()
		loop := naturalLoop(h)
		// everything else in the goal is fixed while the loop runs
		fixed := true
		for s2 := range goal.t {
			if s2 == xs {
				continue
			}
			if in, ok := s2.v.(ssa.Instruction); ok && loop[in.Block()] {
				fixed = false
			}
		}
		if !fixed {
			continue
		}
		for _, f := range fs {
			if !f.neq || len(f.e.t) != 1 {
				continue
			}
			for ys, k2 := range f.e.t {
				y, ok := ys.v.(*ssa.Phi)
				if !ok || ys.isLen || y == x || y.Block() != h || (k2 != 1 && k2 != -1) {
					continue
				}
				// the ways into the header, with the values x and y arrive with; values merged inside the body
				// (phis of a block where branches of the body meet) are taken apart into the branches
				type way struct {
					from   *ssa.BasicBlock
					e1, e2 ssa.Value
				}
				var ways []way
				var expand func(w way, depth int)
				expand = func(w way, depth int) {
					var at *ssa.BasicBlock
					for _, e := range []ssa.Value{w.e1, w.e2} {
						if ph, ok := e.(*ssa.Phi); ok && ph.Block() != h && loop[ph.Block()] && (ph.Block() == w.from || ph.Block().Dominates(w.from)) {
							if at == nil || at.Dominates(ph.Block()) {
								at = ph.Block()
							}
						}
					}
					if at == nil || depth > 4 {
						ways = append(ways, w)
						return
					}
					for q, pq := range at.Preds {
						n := way{from: pq, e1: w.e1, e2: w.e2}
						if ph, ok := w.e1.(*ssa.Phi); ok && ph.Block() == at {
							n.e1 = ph.Edges[q]
						}
						if ph, ok := w.e2.(*ssa.Phi); ok && ph.Block() == at {
							n.e2 = ph.Edges[q]
						}
						expand(n, depth+1)
					}
				}
				for j, pj := range h.Preds {
					expand(way{pj, x.Edges[j], y.Edges[j]}, 0)
				}
				all := len(ways) > 0 && len(ways) <= 32
				for _, w := range ways {
					if !all {
						break
					}
					e1, e2 := w.e1, w.e2
					if c, ok := gConstInt(e2); ok && k2*c+f.e.c == 0 {
						continue // y arrives as the sentinel
					}
					if e2 == ssa.Value(y) && e1 == ssa.Value(x) {
						continue // both unchanged: induction hypothesis
					}
					g2 := goal.add(gs(xs), -k1).add(p.val(e1), k1)
					facts := p.facts(w.from)
					if e2 == ssa.Value(y) {
						facts = append(append([]gfact{}, facts...), f)
					}
					if ok, _ := p.proveD(g2, facts, 1); !ok {
						all = false
					}
				}
				if all {
					return true, fmt.Sprintf("sentinel rule: by induction over the loop, %s != 0 implies the goal", p.str(f.e))
				}
			}
		}
	}
	return false, ""
}

// proveBasic: v >= 0 from lengths and lower bounds only (no recursion into quotient facts).
func (p *gprover) proveBasic(g glin, fs []gfact) (bool, string) {
	if g.isConst() {
		return g.c >= 0, "constant"
	}
	if g.nonneg() {
		return true, "lengths"
	}
	ok := g.c >= 0
	for s, k := range g.t {
		if s.isLen && k >= 0 {
			continue
		}
		if l, okb := glb(s.v, map[ssa.Value]bool{}); okb && l >= 0 && k >= 0 && !s.isLen {
			continue
		}
		ok = false
	}
	return ok, "lower bounds"
}

func isInduction(v ssa.Value) bool {
	if b, ok := v.(*ssa.BinOp); ok && b.Op == token.ADD {
		if c, ok := gConstInt(b.Y); ok && c == 1 {
			if phi, ok := b.X.(*ssa.Phi); ok {
				for _, e := range phi.Edges {
					if e == v {
						return true
					}
				}
			}
		}
	}
	if phi, ok := v.(*ssa.Phi); ok {
		for _, e := range phi.Edges {
			if bb, ok := e.(*ssa.BinOp); ok && bb.Op == token.ADD && bb.X == ssa.Value(phi) {
				return true
			}
		}
	}
	return false
}

type grdStats struct{ proven, notCovered, violated, belief int }

// grdFunction evaluates every index/slice/make site of fn.
func grdFunction(c *Ctx, r *Report, rule string, fn *ssa.Function, st *grdStats) {
	p := newProver(c, fn)
	where := fname(fn)
	r.analysed(where)
	for _, b := range fn.Blocks {
		for _, ins := range b.Instrs {
			var base, lo, hi ssa.Value
			kind := ""
			switch x := ins.(type) {
			case *ssa.IndexAddr:
				base, lo, kind = x.X, x.Index, "index"
			case *ssa.Index:
				base, lo, kind = x.X, x.Index, "index"
			case *ssa.Lookup:
				if _, ok := x.X.Type().Underlying().(*types.Basic); !ok {
					continue
				}
				base, lo, kind = x.X, x.Index, "index"
			case *ssa.Slice:
				if x.Low == nil && x.High == nil {
					continue
				}
				base, lo, hi, kind = x.X, x.Low, x.High, "slice"
			case *ssa.MakeSlice:
				if gc := p.val(x.Cap).add(p.val(x.Len), -1); x.Cap != x.Len && !(gc.isConst() && gc.c >= 0) {
					p.invariants()
					ok, why := p.prove(gc, p.facts(b))
					desc := "make cap " + p.sy.expr(x.Cap).String()
					if ok {
						st.proven++
						r.holds(rule, where, desc, c.pos(ins.Pos()), "capacity is at least the length ("+why+")")
					} else {
						st.violated++
						r.violated(rule, where, desc, c.pos(ins.Pos()), "cannot prove the make capacity "+p.str(gc)+" >= 0 over the length: a capacity taken from unchecked input panics when negative (and allocates without bound when huge)")
					}
				}
				g := p.val(x.Len)
				if g.isConst() {
					continue
				}
				p.invariants()
				ok, why := p.prove(g, p.facts(b))
				desc := "make len " + p.sy.expr(x.Len).String()
				if ok {
					st.proven++
					r.holds(rule, where, desc, c.pos(ins.Pos()), "length is non-negative ("+why+")")
				} else {
					st.violated++
					r.violated(rule, where, desc, c.pos(ins.Pos()), "cannot prove the make length "+p.str(g)+" >= 0: a negative length panics")
				}
				continue
			case *ssa.Call:
				// snm.At(v, literal indices): constant indices into v
				if callee := x.Call.StaticCallee(); callee != nil && qname(callee) == gostuffPath+"/snm.At" && len(x.Call.Args) == 2 {
					p.invariants()
					fs := p.facts(b)
					blen := p.lenOf(x.Call.Args[0])
					for _, iv := range orderedVarargs([]ssa.Value{x.Call.Args[1]}) {
						k, ok := gConstInt(iv)
						desc := fmt.Sprintf("snm.At %s[%d]", p.sy.expr(x.Call.Args[0]).String(), k)
						if !ok {
							st.notCovered++
							r.notCovered(where + ": snm.At with a computed index at " + c.pos(ins.Pos()))
							continue
						}
						okp, why := p.prove(blen.add(gk(k+1), -1), fs)
						if okp && k >= 0 {
							st.proven++
							r.holds(rule, where, desc, c.pos(ins.Pos()), "index < len ("+why+")")
						} else {
							st.violated++
							r.violated(rule, where, desc, c.pos(ins.Pos()), fmt.Sprintf("cannot prove %d < len: missing guard", k))
						}
					}
				}
				continue
			default:
				continue
			}
			var blen glin
			if pt, ok := base.Type().Underlying().(*types.Pointer); ok {
				if arr, ok := pt.Elem().Underlying().(*types.Array); ok {
					blen = gk(arr.Len())
				}
			}
			if arr, ok := base.Type().Underlying().(*types.Array); ok {
				blen = gk(arr.Len())
			}
			if blen.t != nil && kind == "index" {
				if k, ok := gConstInt(lo); ok && k >= 0 && k < blen.c {
					continue // constant index into a fixed-size array: checked by the compiler
				}
			}
			byType := ""
			if blen.t == nil {
				blen = p.lenOf(base)
				// byte-typed index into a 256-entry table
				if kind == "index" {
					if bt, ok := lo.Type().Underlying().(*types.Basic); ok && bt.Kind() == types.Uint8 {
						if g, ok := loadedGlobal(base); ok {
							if n := c.globalTableSize(g); n >= 256 {
								byType = fmt.Sprintf("byte index into a table of %d entries", n)
							}
						}
					}
				}
			}
			p.invariants()
			fs := p.facts(b)
			type goal struct {
				g    glin
				what string
			}
			var goals []goal
			if kind == "index" {
				goals = append(goals, goal{p.val(lo), "idx >= 0"}, goal{blen.add(p.val(lo), -1).add(gk(1), -1), "idx < len"})
			} else {
				l := gk(0)
				if lo != nil {
					l = p.val(lo)
					goals = append(goals, goal{l, "lo >= 0"})
				}
				if hi != nil {
					goals = append(goals, goal{p.val(hi).add(l, -1), "lo <= hi"}, goal{blen.add(p.val(hi), -1), "hi <= len"})
				} else {
					goals = append(goals, goal{blen.add(l, -1), "lo <= len"})
				}
			}
			idxDesc := ""
			if lo != nil {
				idxDesc = p.sy.expr(lo).String()
			}
			if hi != nil {
				idxDesc += ":" + p.sy.expr(hi).String()
			} else if kind == "slice" {
				idxDesc += ":"
			}
			site := fmt.Sprintf("%s %s[%s]", kind, p.sy.expr(base).String(), idxDesc)
			for _, gl := range goals {
				desc := site + " " + gl.what
				if byType != "" {
					st.proven++
					r.holds(rule, where, desc, c.pos(ins.Pos()), byType)
					continue
				}
				ok, why := p.prove(gl.g, fs)
				if ok {
					st.proven++
					r.holds(rule, where, desc, c.pos(ins.Pos()), why)
					continue
				}
				opaque := false
				nint := 0
				var only gsym
				for sy := range gl.g.t {
					if !sy.isLen {
						if isInduction(sy.v) {
							continue
						}
						nint++
						only = sy
					}
				}
				if nint > 0 {
					opaque = true
					if nint == 1 && len(gl.g.t) == 1 && gl.g.t[only] == 1 {
						if l, known := glb(only.v, map[ssa.Value]bool{}); known && l < 0 {
							opaque = false
							for _, f := range fs {
								if !f.neq {
									continue
								}
								if len(f.e.t) != 1 {
									continue
								}
								for fsym, coef := range f.e.t {
									if !fsym.isLen && fsym == only && (coef == 1 || coef == -1) {
										if l2, k2 := glb(fsym.v, map[ssa.Value]bool{}); k2 && l2 < 0 && f.e.c*coef == -l2 {
											ok, why = true, "guarded by the sentinel test on "+p.sy.expr(fsym.v).String()+" (the code's stated belief, not a proof)"
										}
									}
								}
							}
							if ok {
								st.belief++
								r.holds(rule, where, desc, c.pos(ins.Pos()), why)
								continue
							}
						}
					}
				}
				if opaque {
					st.notCovered++
					r.notCovered(fmt.Sprintf("%s: %s at %s — computed index, goal %s >= 0 not decided", where, desc, c.pos(ins.Pos()), p.str(gl.g)))
					continue
				}
				st.violated++
				r.violated(rule, where, desc, c.pos(ins.Pos()), "cannot prove "+p.str(gl.g)+" >= 0 from the guards that dominate this site: a missing or too weak length check — the access can panic")
			}
		}
	}
}

// globalTableSize: constant size of a package-level slice made with make(T, N), or array length.
func (c *Ctx) globalTableSize(g *ssa.Global) int64 {
	if arr, ok := g.Type().(*types.Pointer).Elem().Underlying().(*types.Array); ok {
		return arr.Len()
	}
	var n int64
	for _, f := range c.moduleFuncs() {
		instrs(f, func(in ssa.Instruction) {
			if st, ok := in.(*ssa.Store); ok && st.Addr == ssa.Value(g) {
				if sl, ok := st.Val.(*ssa.Slice); ok {
					n = isConstMake(sl)
				} else if mk, ok := st.Val.(*ssa.MakeSlice); ok {
					n, _ = cInt(constVal(mk.Len))
				}
			}
		})
	}
	return n
}

// phiStride: v is a loop variable phi[0, v+s] with constant s; returns s (0 if not).
func phiStride(v ssa.Value) int64 {
	phi, ok := v.(*ssa.Phi)
	if !ok {
		return 0
	}
	var stride int64
	okInit := false
	for _, e := range phi.Edges {
		if k, ok := gConstInt(e); ok {
			if k != 0 {
				return 0
			}
			okInit = true
			continue
		}
		b, ok := e.(*ssa.BinOp)
		if !ok || b.Op != token.ADD || b.X != ssa.Value(phi) {
			return 0
		}
		k, ok := gConstInt(b.Y)
		if !ok || (stride != 0 && stride != k) {
			return 0
		}
		stride = k
	}
	if !okInit {
		return 0
	}
	return stride
}

// isIndexSearch: a call of strings/bytes Index, IndexByte, IndexAny, IndexRune, IndexFunc or their Last forms,
// whose result is -1 for "not found" and otherwise an offset into the first argument.
func isIndexSearch(call *ssa.Call) bool {
	g := call.Call.StaticCallee()
	if g == nil || g.Pkg == nil || g.Signature.Recv() != nil {
		return false
	}
	if p := g.Pkg.Pkg.Path(); p != "strings" && p != "bytes" {
		return false
	}
	switch g.Name() {
	case "Index", "IndexByte", "IndexAny", "IndexRune", "IndexFunc", "LastIndex", "LastIndexByte", "LastIndexAny", "LastIndexFunc":
		return true
	}
	return false
}

// settledLoad: no store into the cell can execute after this load (in the function or in a closure that
// captures the cell), so every such load sees the cell's final value.
func settledLoad(cell *ssa.Alloc, load *ssa.UnOp) bool {
	for _, r := range *cell.Referrers() {
		switch y := r.(type) {
		case *ssa.Store:
			if y.Addr != ssa.Value(cell) {
				return false // the cell's address is stored somewhere
			}
			if y.Block() == load.Block() {
				if !instrDominates(y, load) {
					return false
				}
				// a loop through this block would run the store again after the load
				if blockReaches(load.Block(), load.Block()) {
					return false
				}
				continue
			}
			if blockReaches(load.Block(), y.Block()) {
				return false
			}
		case *ssa.UnOp, *ssa.DebugRef:
		case *ssa.MakeClosure:
			fn, ok := y.Fn.(*ssa.Function)
			if !ok {
				return false
			}
			for i, b := range y.Bindings {
				if b != ssa.Value(cell) || i >= len(fn.FreeVars) {
					continue
				}
				fv := fn.FreeVars[i]
				for _, r2 := range *fv.Referrers() {
					if u, ok := r2.(*ssa.UnOp); ok && u.Op == token.MUL {
						continue
					}
					if _, ok := r2.(*ssa.DebugRef); ok {
						continue
					}
					return false
				}
			}
		default:
			return false
		}
	}
	return true
}

// onlyRead: the slice value is used only for indexing that is loaded from, slicing (recursively), len/cap and range.
func onlyRead(v ssa.Value, depth int) bool {
	if depth > 3 || v.Referrers() == nil {
		return false
	}
	for _, ref := range *v.Referrers() {
		switch x := ref.(type) {
		case *ssa.DebugRef:
		case *ssa.IndexAddr:
			for _, r2 := range *x.Referrers() {
				if u, ok := r2.(*ssa.UnOp); !ok || u.Op != token.MUL {
					if _, dbg := r2.(*ssa.DebugRef); !dbg {
						return false
					}
				}
			}
		case *ssa.Slice:
			if !onlyRead(x, depth+1) {
				return false
			}
		case *ssa.Call:
			b, ok := x.Call.Value.(*ssa.Builtin)
			if !ok || (b.Name() != "len" && b.Name() != "cap") {
				return false
			}
		case *ssa.Range:
		default:
			return false
		}
	}
	return true
}
