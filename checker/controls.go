package main

import (
	"fmt"
	"os"
	"path/filepath"
	"strings"

	"golang.org/x/tools/go/packages"
	"golang.org/x/tools/go/ssa"
	"golang.org/x/tools/go/ssa/ssautil"
)

// controlCtx loads the positive-control package (once per process).
var controlCache *Ctx
var controlErr error

func controlsDir() string {
	if d := os.Getenv("BIOCHECK_CONTROLS"); d != "" {
		return d
	}
	exe, err := os.Executable()
	if err == nil {
		d := filepath.Join(filepath.Dir(filepath.Dir(exe)), "checker", "controls")
		if _, err := os.Stat(d); err == nil {
			return d
		}
	}
	return "/verif/checker/controls"
}

func loadControls() (*Ctx, error) {
	if controlCache != nil || controlErr != nil {
		return controlCache, controlErr
	}
	env := []string{}
	for _, e := range os.Environ() {
		if strings.HasPrefix(e, "GOWORK=") || strings.HasPrefix(e, "GOFLAGS=") {
			continue
		}
		env = append(env, e)
	}
	env = append(env, "GOFLAGS=-mod=mod", "GOPROXY=off", "GOSUMDB=off", "GOWORK=off", "GOTOOLCHAIN=local")
	conf := &packages.Config{Mode: packages.LoadAllSyntax, Dir: controlsDir(), Env: env}
	pkgs, err := packages.Load(conf, "./...")
	if err != nil {
		controlErr = err
		return nil, err
	}
	if packages.PrintErrors(pkgs) > 0 || len(pkgs) == 0 {
		controlErr = fmt.Errorf("control package does not load")
		return nil, controlErr
	}
	prog, _ := ssautil.AllPackages(pkgs, ssa.InstantiateGenerics)
	prog.Build()
	c := &Ctx{Dir: controlsDir(), All: map[string]*packages.Package{}, SSA: map[string]*ssa.Package{}, astOf: nil}
	packages.Visit(pkgs, nil, func(p *packages.Package) { c.All[p.PkgPath] = p })
	c.Pkgs = pkgs
	c.Fset = pkgs[0].Fset
	c.Prog = prog
	for _, sp := range prog.AllPackages() {
		c.SSA[sp.Pkg.Path()] = sp
	}
	controlCache = c
	return c, nil
}

// controlFuncs returns the functions of the control package.
func controlFuncs(c *Ctx) []*ssa.Function {
	var out []*ssa.Function
	sp := c.SSA["controls/ctl"]
	if sp == nil {
		return nil
	}
	for _, m := range sp.Members {
		if f, ok := m.(*ssa.Function); ok && f.Blocks != nil {
			out = append(out, family(f)...)
		}
	}
	// methods
	for _, m := range sp.Members {
		if t, ok := m.(*ssa.Type); ok {
			ms := c.Prog.MethodSets.MethodSet(typesPtr(t))
			for i := 0; i < ms.Len(); i++ {
				if f := c.Prog.MethodValue(ms.At(i)); f != nil && f.Blocks != nil && f.Synthetic == "" {
					out = append(out, family(f)...)
				}
			}
		}
	}
	return out
}

// withControl runs detector on the control package and records whether it matched.
func withControl(r *Report, name string, detect func(c *Ctx, funcs []*ssa.Function) int) {
	c, err := loadControls()
	if err != nil {
		r.control(name, false, "control package failed to load: "+err.Error())
		return
	}
	n := detect(c, controlFuncs(c))
	r.control(name, n > 0, fmt.Sprintf("%d matches on checker/controls/ctl", n))
}
