// Demonstrations of the genuine defects of DESIGN.md §5 against the real code.
// Run: cd /verif/notes/defect_demos && cp /repo/go.sum . && GOFLAGS=-mod=mod GOPROXY=off go test ./...
// Every test fails on the pinned tree (4addbe6) and passes after the fix: commits.
package demos

import (
	"bytes"
	"errors"
	"io"
	"os"
	"path/filepath"
	"reflect"
	"strings"
	"testing"

	"github.com/fluhus/biostuff/formats/bed"
	"github.com/fluhus/biostuff/formats/fastq"
	"github.com/fluhus/biostuff/formats/newick"
	"github.com/fluhus/biostuff/formats/sam"
	"github.com/fluhus/biostuff/regions"
	"github.com/fluhus/biostuff/sequtil"
)

func TestBedFileYieldsRecords(t *testing.T) { // C06
	p := filepath.Join(t.TempDir(), "x.bed")
	os.WriteFile(p, []byte("chr1\t1\t2\nchr1\t3\t4\n"), 0o644)
	n := 0
	for _, err := range bed.File(p) {
		if err != nil {
			t.Fatal(err)
		}
		n++
	}
	if n != 2 {
		t.Fatalf("bed.File yielded %d records, want 2", n)
	}
}

func TestFastqLongRead(t *testing.T) { // C02
	seq := strings.Repeat("A", 70000)
	in := "@r\n" + seq + "\n+\n" + seq + "\n"
	n := 0
	for fq, err := range fastq.Reader(strings.NewReader(in)) {
		if err != nil {
			t.Fatal(err)
		}
		if len(fq.Sequence) != 70000 {
			t.Fatal("bad length")
		}
		n++
	}
	if n != 1 {
		t.Fatalf("got %d records", n)
	}
}

func TestNewickNewlineName(t *testing.T) { // C05
	for _, name := range []string{"a\nb", "a\rb"} {
		txt, _ := (&newick.Node{Name: name}).MarshalText()
		var got []*newick.Node
		for n, err := range newick.Reader(bytes.NewReader(txt)) {
			if err != nil {
				t.Fatalf("%q -> %q: %v", name, txt, err)
			}
			got = append(got, n)
		}
		if len(got) != 1 || got[0].Name != name {
			t.Fatalf("%q -> %q -> %v", name, txt, got)
		}
	}
}

func TestSamLeadingQuote(t *testing.T) { // C03, C11
	recs := []*sam.SAM{
		{Qname: "r1", Rname: "c", Cigar: "*", Rnext: "*", Seq: "ACG", Qual: "\"II", Tags: map[string]any{}},
		{Qname: "r2", Rname: "c", Cigar: "*", Rnext: "*", Seq: "ACG", Qual: "III", Tags: map[string]any{}},
	}
	buf := &bytes.Buffer{}
	buf.WriteString("@CO\t\"x\"\n")
	for _, r := range recs {
		r.Write(buf)
	}
	var got []*sam.SAM
	var hdr []string
	for sh, err := range sam.ReaderHeader(bytes.NewReader(buf.Bytes())) {
		if err != nil {
			t.Fatal(err)
		}
		if sh.H != nil {
			hdr = append(hdr, *sh.H)
		} else {
			got = append(got, sh.S)
		}
	}
	if !reflect.DeepEqual(got, recs) {
		t.Fatalf("records differ: got %d records", len(got))
	}
	if len(hdr) != 1 || hdr[0] != "@CO\t\"x\"" {
		t.Fatalf("header differs: %q", hdr)
	}
}

type failAfter struct {
	data []byte
	n    int
}

var errBoom = errors.New("boom")

func (f *failAfter) Read(p []byte) (int, error) {
	if f.n >= len(f.data) {
		return 0, errBoom
	}
	k := copy(p, f.data[f.n:])
	f.n += k
	return k, nil
}

func TestSamFailingStream(t *testing.T) { // C07
	line := "r1\t0\tc\t1\t2\t*\t*\t0\t0\tACGT\tIIII\n"
	in := strings.Repeat(line, 3)
	cut := len(line)*2 + 30 // inside the third record, after 11 fields exist? no: mid-line
	items, errs := 0, 0
	for s, err := range sam.Reader(&failAfter{data: []byte(in)[:cut]}) {
		items++
		if items > 50 {
			t.Fatal("iteration does not end while the reader keeps failing")
		}
		if err != nil {
			errs++
			continue
		}
		if s.Seq != "ACGT" || s.Qual != "IIII" {
			t.Fatalf("record built from a truncated line: %+v", s)
		}
	}
	if errs == 0 {
		t.Fatal("stream failure not reported")
	}
}

func TestBedQuoteInName(t *testing.T) { // C04, C11
	recs := []*bed.BED{
		{N: 4, Chrom: "c", ChromStart: 1, ChromEnd: 2, Name: "a\"b"},
		{N: 4, Chrom: "c", ChromStart: 1, ChromEnd: 2, Name: "\"ab"},
		{N: 4, Chrom: "c", ChromStart: 3, ChromEnd: 4, Name: "x"},
	}
	buf := &bytes.Buffer{}
	for _, r := range recs {
		if err := r.Write(buf); err != nil {
			t.Fatal(err)
		}
	}
	var got []*bed.BED
	for b, err := range bed.Reader(bytes.NewReader(buf.Bytes())) {
		if err != nil {
			t.Fatal(err)
		}
		got = append(got, b)
	}
	if !reflect.DeepEqual(got, recs) {
		t.Fatalf("got %d records", len(got))
	}
}

func TestRegionsEmptyInverted(t *testing.T) { // C16
	idx := regions.NewIndex([]int{5, 3}, []int{5, 1})
	for _, p := range []int{0, 1, 2, 3, 4, 5, 7, 100} {
		if got := idx.At(p); len(got) != 0 {
			t.Fatalf("At(%d) = %v, want none", p, got)
		}
	}
}

func TestReadingFramesShort(t *testing.T) { // C14
	for _, s := range []string{"", "A", "AC"} {
		func() {
			defer func() {
				if r := recover(); r != nil {
					t.Fatalf("TranslateReadingFrames(%q) panics: %v", s, r)
				}
			}()
			sequtil.TranslateReadingFrames([]byte(s))
		}()
	}
}

func TestSamATagHighByte(t *testing.T) { // C11
	r := &sam.SAM{Qname: "r1", Rname: "c", Cigar: "*", Rnext: "*", Seq: "A", Qual: "I",
		Tags: map[string]any{"XA": byte(0x80)}}
	txt, _ := r.MarshalText()
	for s, err := range sam.Reader(bytes.NewReader(txt)) {
		if err != nil {
			t.Fatalf("accepted record is not a fixed point: %q: %v", txt, err)
		}
		if !reflect.DeepEqual(s, r) {
			t.Fatalf("differs: %+v", s)
		}
	}
}

var _ = io.EOF
