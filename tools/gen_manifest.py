#!/usr/bin/env python3
"""Regenerates /verif/MANIFEST.json from the table below (single source of truth for the interface)."""
import json, os
V = os.path.dirname(os.path.dirname(os.path.abspath(__file__)))

NOTE = ("Trusted base: go/packages, go/types, go/ssa, go/cfg of x/tools v0.29.0 and the go1.23.5 front end; the checker's own code; "
        "summary tables for the standard library; see DESIGN.md section 9. Decides named structural clauses only (level 'other'); "
        "the behavioural remainder of the property is listed per property in DESIGN.md section 4 and in the evidence under coverage.explanation.")

CLAIMED = {
 "C04": ("integer-partition dataflow on b.N over the writer's CFG combined with operand provenance (one verdict per N in 3..12); backward data slices of the parser's field stores; call-graph reachability to encoding/csv",
         "Exact decision per N that the enabled writes produce the first N fields with N-1 TABs and one newline, refusal outside 3..12 before any write, parser column = writer column for all 12 fields, no quoting layer, whole lines. Does not decide value equality of the round trip.", "4/C04"),
 "C11": ("linear-inequality prover over SSA with dominating branch facts, predicate summaries and inductive bounds (index/slice/make goals); finite-domain discharge of reachable panics; error-class dataflow for every error-returning call; call-graph reachability",
         "Every constant, sentinel-based or length-bounded index/slice/make reachable from a decoder is proven in bounds or listed as not covered; every reachable explicit panic is discharged; no error is dropped; no int-to-string conversion; bad SAM line = one error item, then continue; fixed-point structure of tags/quoting shared with C03-C05. Does not decide termination or panics behind indices listed as not covered.", "4/C11"),
 "C15": ("points-to/effect analysis for the observers; partition dataflow on the pruned node's map length; structural rules for key enumeration and the JSON mirror; yield discipline",
         "Exact decisions that observers never write the trie, the not-found path of Delete writes nothing, pruning continues only past empty ancestors, every child key is enumerated, the JSON mirror carries the node's map unchanged. Does not decide the set model or exactly-once enumeration under histories.", "4/C15"),
 "C16": ("dominating-fact search for start < end at every event append; linear-inequality prover for all index sites; points-to freshness/purity of At; who-may-write of the index; comparator arithmetic scan; search-shape rules",
         "Exact decisions that only non-empty intervals enter the sweep, all index expressions are in bounds (length mismatch panics), At returns fresh memory and never writes the index, the event order uses comparisons only (position, ends before starts), keys are sorted. Does not decide exactness of the sweep as a whole.", "4/C16"),
 "C17": ("CFG must-pass-through typestate of the hasher (Reset, Write(k-mer), Sum64, Push) and of Sort on exit; provenance of the iterator arguments; the C12 rules for CanonicalSubsequences; symbolic shape of the distance formula",
         "Exact decisions that every k-mer of every upper-cased sequence is hashed from a reset hasher and pushed, the sketch is sorted on every exit, Sequences = New + Add, Distance = FromJaccard(Jaccard), Seed is never reassigned, FromJaccard is 1 at 0 and min(., 1) of the documented formula. Does not decide bottom-n content or the estimator (dependency).", "4/C17"),
 "C19": ("points-to/effect analysis from PreOrder/PostOrder/traverse; call-graph cycle search; stale-element-pointer rule; captured-state rule; guards of the two yield sites and shape of the push/advance step",
         "Exact decisions that traversal never writes the tree, does not recurse, uses no element pointer across an append, shares no state between runs, yields pre-order at child index 0 and post-order at child index len(Children), pushes Children[i] and advances i by one. Does not decide that these steps compose to the classic order as a sequence equality.", "4/C19"),
 "C20": ("error-class dataflow and return-operand rule for ReadNCBI; linear-inequality prover for its index sites; provenance of the stored cell; points-to purity/freshness of Symmetrical; guard of the conflict panic; shape of GoString's sort comparator and line format",
         "Exact decisions of 'error never with a partial matrix', all index guards (wrong value count, multi-character label), '*' = Gap, cell = ParseFloat of the matching column, Symmetrical pure/fresh/mirror/conflict edge, GoString sorted by key bytes with exact line format. Does not decide set equality of parsed pairs or float formatting.", "4/C20"),
 "C01": ("codec-agreement rules on SSA: single source of bytes (MarshalText via Write), constant formats with operand provenance, symbolic wrap-width agreement, CR/LF comparison groups, pass-through must-yield on go/cfg",
         "Exact decisions of the structural clauses 'MarshalText = Write', 'name line per record', 'lines of at most 80', 'CR wherever LF', 'every record handed on'. Does not decide decode(encode(x)) = x.", "4/C01"),
 "C02": ("typestate (Scanner Buffer before use), constant format with operand provenance, dominance of the accepting return by the rejection guards, taint of bufio buffer views",
         "Exact decisions of: token limit >= 2^30 before first Scan; 4-line layout and its field order on both sides; every malformation named by the property cannot reach the accepting return; no aliasing of the scanner buffer. Does not decide round-trip equality.", "4/C02"),
 "C05": ("byte-set extraction from SSA comparisons and string constants; writer/reader table agreement; sign-class evaluation of the distance test; append-only stores into children",
         "Exact decision, for every byte the tokenizer treats specially, that the writer protects it; inverse substitution/quoting pairs; distance written iff non-zero over all sign classes incl. NaN; condensed output ending in ';'; reader never drops children. Does not decide tree equality of the round trip.", "4/C05"),
 "C06": ("CFG must-pass-through for File delegation, forward value flow of io.Reader values, taint of bufio buffer views, CR/LF table agreement, line-trimming chain shape",
         "Exact decisions of: every File = aio.Open + identity pass-through of the same package's Reader; streams only enter re-assembling readers; nothing consults Buffered(); no buffer view escapes; CR recognised wherever LF is in every format. Does not decide equality of item sequences; bufio/gzip reassembly is trusted.", "4/C06"),
 "C07": ("error-class dataflow {nil, EOF, other} x {reported} with edge refinement over SSA, per error term; companion-data use analysis; typestate Scan->Err; yield discipline after stream errors; writer error propagation incl. deferred calls",
         "Decides for every fault offset at once that no stream failure can be dropped, that no data of a failed read is used, that an error item ends the iteration, and that every writer error is returned. Does not decide equality of the delivered prefix with the fault-free decode.", "4/C07"),
 "C03": ("bit-parallel abstract interpretation of the 12 flag constants, 12 getters, 12 setters (exact for all flag values); writer/reader table agreement rules for tags and columns",
         "Exact decision of the flag clause for all flag values; structural necessary conditions of the record/tag/header round trip. Does not decide equality of decode(encode(x)) with x.", "4/C03"),
 "C08": ("ordering enumeration of decideOnStep, symbolic sibling comparison Global/Local, traceback-delta agreement, must-pass-through clamp, may-write analysis",
         "Exact decisions of: label/candidate pairing in all 13 orderings, traceback offsets = fill predecessor offsets, argument order of every matrix lookup, gap-open shape, Local's clamp on every path, Local's start offsets, inputs never written. Does not decide score = re-score of steps as an equality.", "4/C08"),
 "C09": ("constant evaluation of the six shipped matrix literals (all 3456 entries), SSA shape of the Levenshtein initialiser (or constant folding of the package initialiser when its shape is another one), ordering enumeration, sibling comparison with gap-open abstracted to zero",
         "Exhaustive over all entries of every shipped table (complete, symmetric, gap-open 0, single assignment, who-may-write); decideOnStep returns a maximum in all 13 orderings; Global/Local recurrences agree. Does not decide optimality itself.", "4/C09"),
 "C12": ("table reconstruction from init SSA (256 entries; by shape, or by constant folding of the package initialiser), 256-point transfer function of complementByte, symbolic loop/sibling comparison, structural rules for CanonicalSubsequences (count, windows, min-selection)",
         "Exact accept/panic boundary and complement for all 256 bytes; loop bounds and data flow of both reverse-complement functions; item count, window mirror and minimum selection of CanonicalSubsequences. Does not decide the reversal/strand symmetry as sequence equalities.", "4/C12"),
 "C13": ("table reconstruction from init SSA (by shape, or by constant folding of the package initialiser), finite-domain transfer functions for Ntoi/Iton, residue case split for the shift, two-input transfer function over all 1024 (value, position) points of the expansion table",
         "Exhaustive for Ntoi (256 bytes), Iton (all integer regions), the shift/append residues and every entry of the 2-bit expansion table; -1 guard dominates packing. Does not decide the byte offset arithmetic of DNATo2Bit or the inverse laws as string equalities.", "4/C13"),
 "C14": ("constant evaluation of the codon and amino-acid literals against the NCBI table-1 oracle, 256-point transfer functions for the case folds, loop/exit structure of TranslateReadingFrames",
         "Exhaustive over 64 codons and, via the case-fold transfer function, over all 256^3 codon byte triples; exact accept set of AminoName over 256 bytes; all three frames produced for every length. Does not decide the concatenation law as an equality.", "4/C14"),
 "C18": ("yield-discipline on go/cfg: must-not-reach after a false callback result / after an error item",
         "Exact decision, for every callback call site of all 17 iterator functions, that no further callback call is reachable after a false result (all stopping positions at once), and that error items are last in fasta/fastq/bed/newick. Does not decide that the items seen are the leading items of an uninterrupted run.", "4/C18"),
}

NOT_YET = "no static rule implemented for this property yet in this round (work in progress; see DESIGN.md section 11)"
NA = {
 "C10": "optimality of the affine-gap score is a numeric maximum over all alignments; no sound structural necessary condition exists (DESIGN.md section 4/C10). The pinned tree violates it (witness recorded as 'outside:' in KNOWN_FINDINGS.txt); static analysis cannot show that.",
}

props = [json.loads(l)["id"] for l in open(os.path.join(V, "properties.jsonl"))]
checks, na = [], []
for p in props:
    if p in CLAIMED:
        tech, text, ref = CLAIMED[p]
        checks.append({
            "property_id": p,
            "quick_cmd": f"/verif/check.sh {p} quick",
            "thorough_cmd": f"/verif/check.sh {p} thorough",
            "evidence_file": f"/verif/evidence/{p}.json",
            "replay_cmd_template": "/verif/bin/biocheck -replay {path}",
            "engine": "biocheck",
            "level_claimed": {"category": "other", "text": text, "design_ref": "DESIGN.md section " + ref + "; rules as built, floors, seeded-fault and false-alarm results: section 13.3-13.6"},
            "level_note": NOTE,
            "technique": "static analysis: " + tech,
        })
    else:
        na.append({"property_id": p, "reason": NA.get(p, NOT_YET)})
m = {
 "version": 1,
 "setup_cmd": "cd /verif/checker && GOFLAGS=-mod=mod GOPROXY=off GOSUMDB=off GOTOOLCHAIN=local GOWORK=off go build -o /verif/bin/biocheck .",
 "hooks": {"guard": "none", "enable": "no hooks: static analysis reads /repo's working tree as it is; nothing in /repo is instrumented",
           "baseline_off_cmd": "cd /repo && GOFLAGS=-mod=mod GOPROXY=off GOSUMDB=off go test -vet=off -count=1 ./...",
           "source_commits": [], "add_only": True},
 "engines": [{"name": "biocheck", "path": "/verif/checker", "serves_properties": sorted(CLAIMED),
              "kind_free_text": "repository-specific static analyser (typed AST, go/cfg, go/ssa, call graph) built on golang.org/x/tools v0.29.0"}],
 "checks": checks,
 "not_applicable": na,
 "notes": "All checks decide properties from /repo's current source without running it. fix: commits in /repo are recorded in /verif/KNOWN_FINDINGS.txt.",
}
json.dump(m, open(os.path.join(V, "MANIFEST.json"), "w"), indent=1)
print("claimed", len(checks), "not_applicable", len(na))
