#!/usr/bin/env python3
"""Validates sub-agent seeds (/tmp/seed-out/C*/m*) in a scratch worktree, runs all quick checks against each
(patch applied to /repo, restored afterwards) and stores confirmed seeds under /verif/seeded/<prop>-m<k>/."""
import json, os, re, shutil, subprocess, sys, glob, concurrent.futures as cf

ENV = dict(os.environ, GOFLAGS="-mod=mod", GOPROXY="off", GOSUMDB="off", GOTOOLCHAIN="local")
SCRATCH = os.environ.get("SEED_SCRATCH", "/tmp/sv")
REPO = os.environ.get("SEED_REPO", "/repo")
BIN = os.environ.get("SEED_BIN", "/verif/bin/biocheck")
TAG = os.environ.get("SEED_TAG", "sv")
PKGDIR = {"fasta": "formats/fasta", "fastq": "formats/fastq", "sam": "formats/sam", "bed": "formats/bed", "newick": "formats/newick",
          "smtext": "formats/smtext", "align": "align", "sequtil": "sequtil", "trie": "trie", "regions": "regions", "mash": "mash"}
PROPS = [l and json.loads(l)["id"] for l in open("/verif/properties.jsonl")]
CLAIMED = [p for p in PROPS if p != "C10"]

def sh(cmd, cwd=None, timeout=600):
    p = subprocess.run(cmd, shell=True, cwd=cwd, env=ENV, capture_output=True, text=True, timeout=timeout)
    return p.returncode, p.stdout + p.stderr

def main():
    only = sys.argv[1:]
    sh(f"git -C /repo worktree remove --force {SCRATCH}")
    rc, out = sh(f"git -C /repo worktree add --detach {SCRATCH} HEAD")
    assert rc == 0, out
    results = []
    ROOT = os.environ.get("SEED_ROOT", "/tmp/seed-out"); PREFIX = os.environ.get("SEED_PREFIX", "")
    for d in sorted(glob.glob(ROOT + "/C*/m*")):
        prop, k = d.split("/")[-2], d.split("/")[-1]
        sid = f"{PREFIX}{prop}-{k}"
        if only and sid not in only and prop not in only:
            continue
        patch = os.path.join(d, "patch.diff")
        demos = glob.glob(os.path.join(d, "*_test.go"))
        if not os.path.exists(patch) or not demos:
            print(sid, "SKIP: no patch or demo"); continue
        demo = demos[0]
        src = open(demo).read()
        m = re.search(r"^package (\w+)", src, re.M)
        pkg = m.group(1).removesuffix("_test")
        pdir = PKGDIR.get(pkg)
        mc = re.match(r"//\s*copy to:\s*(\S+)", src)
        newdir = None
        if mc and re.match(r"^[A-Za-z0-9_/.-]+$", mc.group(1)):
            pdir = mc.group(1).strip("/")
            if not os.path.isdir(os.path.join("/repo", pdir)):
                newdir = pdir
        if not pdir:
            print(sid, "SKIP: unknown package", pkg); continue
        tests = re.findall(r"^func (Test\w+)\(", src, re.M)
        run = "|".join(tests)
        sh("git checkout -- . && git clean -fdq", cwd=SCRATCH)
        rc, out = sh(f"git apply {patch}", cwd=SCRATCH)
        if rc != 0:
            print(sid, "REJECT: patch does not apply", out[:200]); continue
        rc, out = sh("go build ./... && go test -vet=off -count=1 ./...", cwd=SCRATCH)
        suite_ok = rc == 0
        if newdir:
            os.makedirs(os.path.join(SCRATCH, newdir), exist_ok=True)
        dst = os.path.join(SCRATCH, pdir, "zz_seed_demo_test.go")
        shutil.copy(demo, dst)
        rc_with, out_with = sh(f"go test -vet=off -count=1 -run '^({run})$' ./{pdir}/", cwd=SCRATCH, timeout=900)
        sh(f"git checkout -- . ", cwd=SCRATCH)
        rc_without, out_without = sh(f"go test -vet=off -count=1 -run '^({run})$' ./{pdir}/", cwd=SCRATCH, timeout=900)
        os.remove(dst)
        if newdir:
            shutil.rmtree(os.path.join(SCRATCH, newdir), ignore_errors=True)
        confirmed = suite_ok and rc_with != 0 and rc_without == 0
        # run every quick check against the patch applied to /repo
        caught = {}
        rc, out = sh(f"git -C {REPO} apply {patch}")
        if rc == 0:
            def one(p):
                r, o = sh(f"{BIN} -property {p} -tier quick -dir {REPO} -verif /tmp/{TAG}-verif-{p}")
                rules = sorted(set(re.findall(r"^\s+(?:violated|undecided) ([A-Za-z0-9<>=\-]+)/", o, re.M)))
                return p, r, rules
            for p in CLAIMED:
                os.makedirs(f"/tmp/{TAG}-verif-{p}/evidence", exist_ok=True)
                shutil.copy("/verif/KNOWN_FINDINGS.txt", f"/tmp/{TAG}-verif-{p}/KNOWN_FINDINGS.txt")
            with cf.ThreadPoolExecutor(max_workers=12) as ex:
                for p, r, rules in ex.map(one, CLAIMED):
                    if r != 0:
                        caught[p] = rules
            sh(f"git -C {REPO} checkout -- . && git -C {REPO} clean -fdq")
        own = prop in caught
        print(f"{sid}: suite_passes={suite_ok} demo_fails_with={rc_with != 0} demo_passes_without={rc_without == 0} confirmed={confirmed} caught_by_own={own} caught={caught}")
        results.append(dict(id=sid, property=prop, confirmed=confirmed, suite_ok=suite_ok, demo_with=rc_with, demo_without=rc_without, caught=caught, pkgdir=pdir, tests=tests, dir=d))
        if confirmed:
            out_dir = f"/verif/seeded/{sid}"
            os.makedirs(out_dir, exist_ok=True)
            shutil.copy(patch, out_dir + "/patch.diff")
            shutil.copy(demo, out_dir + "/demo_test.go")
            note = open(os.path.join(d, "note.md")).read() if os.path.exists(os.path.join(d, "note.md")) else ""
            meta = {
                "id": sid, "breaks_property": prop, "origin": "independent sub-agent given only the property text and a scratch worktree",
                "needs_to_manifest": note.strip(),
                "demonstration": {"file": "demo_test.go", "copy_to": f"{pdir}/zz_seed_demo_test.go", "run": f"go test -vet=off -count=1 -run '^({run})$' ./{pdir}/"},
                "confirmed_by_me": {"existing_suite_passes_with_patch": suite_ok, "demo_fails_with_patch": rc_with != 0, "demo_passes_without_patch": rc_without == 0,
                                     "how": "tools/validate_seeds.py in a scratch worktree of /repo HEAD (removed afterwards)"},
                "checks_that_report_it": caught,
                "detected_by_own_property_check": own,
            }
            # what the checks reported the first time they ever saw this seed (held-out measurement) is kept
            try:
                prev = json.load(open(out_dir + "/meta.json"))
                first = prev.get("first_run", {"checks_that_reported_it": prev.get("checks_that_report_it", {})})
            except Exception:
                first = {"checks_that_reported_it": caught, "checker_commit": sh("git -C /verif rev-parse --short HEAD")[1].strip()}
            meta["first_run"] = first
            json.dump(meta, open(out_dir + "/meta.json", "w"), indent=1)
    sh(f"git -C /repo worktree remove --force {SCRATCH}")
    for p in CLAIMED:
        shutil.rmtree(f"/tmp/sv-verif-{p}", ignore_errors=True)
    json.dump(results, open("/tmp/seed-results.json", "w"), indent=1)
    n = len(results); c = sum(r["confirmed"] for r in results); o = sum(1 for r in results if r["confirmed"] and r["property"] in r["caught"])
    print(f"seeds={n} confirmed={c} caught_by_own_check={o}")

main()
