#!/bin/sh
# usage: trypatch.sh <patch.diff> <property>...   — applies the patch to /repo, runs the quick checks, restores /repo
P=$1; shift
git -C /repo apply "$P" || { echo "patch does not apply"; exit 2; }
for id in "$@"; do
  out=$(/verif/check.sh $id quick 2>&1); rc=$?
  echo "== $id rc=$rc"; echo "$out" | grep -A1 "^VIOLATION" | head -${LINES_MAX:-12}
done
git -C /repo checkout -- . && git -C /repo clean -fdq
