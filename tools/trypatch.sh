#!/bin/sh
# usage: trypatch.sh <patch.diff> <property>...   — applies the patch to /repo, runs the quick checks, restores /repo
P=$1; shift
trap 'git -C /repo checkout -- . ; git -C /repo clean -fdq' EXIT INT TERM PIPE
git -C /repo apply "$P" || { echo "patch does not apply"; exit 2; }
OUT=$(mktemp)
for id in "$@"; do
  out=$(/verif/check.sh $id quick 2>&1); rc=$?
  { echo "== $id rc=$rc"; echo "$out" | grep -A1 "^VIOLATION" | head -${LINES_MAX:-12}; } >> $OUT
done
git -C /repo checkout -- . && git -C /repo clean -fdq
cat $OUT; rm -f $OUT
