#!/usr/bin/env python3
"""Prints the detection matrix of /verif/seeded (first run = before any rule was written with the seed in view, and now)."""
import json, glob, os, re, sys
prefix = sys.argv[1] if len(sys.argv) > 1 else "r2-"
def title(note):
    for line in note.splitlines():
        line = line.strip().lstrip('#').strip()
        if not line: continue
        line = re.sub(r'^C\d\d\s*/\s*m\d\s*[—-]\s*', '', line)
        line = re.sub(r'^\*\*|\*\*$', '', line)
        return line[:78]
    return ""
def fmt(d, own):
    if not d: return "—"
    parts = []
    if own in d: parts.append(",".join(d[own]))
    others = [f"{k}:{'/'.join(v)}" for k, v in sorted(d.items()) if k != own]
    if others: parts.append("[" + " ".join(others) + "]")
    return " ".join(parts)
rows = []
for d in sorted(glob.glob(f"/verif/seeded/{prefix}C*")):
    m = json.load(open(d + "/meta.json"))
    own = m["breaks_property"]
    first = m.get("first_run", {}).get("checks_that_reported_it", {})
    now = m["checks_that_report_it"]
    rows.append((m["id"], title(m["needs_to_manifest"]), fmt(first, own), ",".join(now.get(own, [])) or "MISSED"))
w = max(len(r[1]) for r in rows)
for r in rows:
    print(f"    {r[0]:<10} {r[1]:<{w}}  first: {r[2]:<40} now: {r[3]}")
own1 = sum(1 for d in sorted(glob.glob(f"/verif/seeded/{prefix}C*")) for m in [json.load(open(d + "/meta.json"))] if m["breaks_property"] in m.get("first_run", {}).get("checks_that_reported_it", {}))
any1 = sum(1 for d in sorted(glob.glob(f"/verif/seeded/{prefix}C*")) for m in [json.load(open(d + "/meta.json"))] if m.get("first_run", {}).get("checks_that_reported_it", {}))
ownN = sum(1 for d in sorted(glob.glob(f"/verif/seeded/{prefix}C*")) for m in [json.load(open(d + "/meta.json"))] if m["breaks_property"] in m["checks_that_report_it"])
print(f"    -- {len(rows)} seeds; first run: {own1} reported by their own property's check, {any1} by some check; now: {ownN} by their own check")
