#!/usr/bin/env python3
"""Quick regression: every stored seed against its own property's check only (no meta.json is written), and
optionally every benign patch against the checks that alarmed on it at first run or all checks. Runs in parallel over
scratch worktrees of /repo given in OWN_WTS (colon-separated); the binary is OWN_BIN (default /verif/bin/biocheck).
usage: own_check.py seeds [prefix...] | benign <dir> [names...]"""
import json, os, re, subprocess, sys, glob, queue, threading
ENV = dict(os.environ, GOFLAGS="-mod=mod", GOPROXY="off", GOSUMDB="off", GOTOOLCHAIN="local")
WTS = [w for w in os.environ.get("OWN_WTS", "").split(":") if w]
BIN = os.environ.get("OWN_BIN", "/verif/bin/biocheck")
CLAIMED = [json.loads(l)["id"] for l in open("/verif/properties.jsonl") if json.loads(l)["id"] != "C10"]
if os.environ.get("OWN_PROPS"):  # restrict the benign run to some checks (a change confined to their rules)
    CLAIMED = [p for p in CLAIMED if p in os.environ["OWN_PROPS"].split(",")]
def sh(cmd):
    p = subprocess.run(cmd, shell=True, env=ENV, capture_output=True, text=True, timeout=1800)
    return p.returncode, p.stdout + p.stderr
def run(wt, patch, props):
    sh(f"git -C {wt} checkout -q -- . ; git -C {wt} clean -fdq")
    rc, out = sh(f"git -C {wt} apply {patch}")
    if rc != 0:
        return None, "PATCH DOES NOT APPLY " + out[:200]
    res = {}
    vd = f"/tmp/own-verif-{os.path.basename(wt)}"
    os.makedirs(vd + "/evidence", exist_ok=True)
    sh(f"cp /verif/KNOWN_FINDINGS.txt {vd}/")
    for p in props:
        r, o = sh(f"{BIN} -property {p} -tier quick -dir {wt} -verif {vd}")
        if r != 0:
            res[p] = [l.strip()[:260] for l in o.splitlines() if re.match(r"^\s+(violated|undecided) ", l)][:4]
    sh(f"git -C {wt} checkout -q -- . ; git -C {wt} clean -fdq")
    return res, ""
def main():
    mode = sys.argv[1]
    jobs = []
    if mode == "seeds":
        prefixes = sys.argv[2:]
        for mp in sorted(glob.glob("/verif/seeded/*/meta.json")):
            d = os.path.dirname(mp); sid = os.path.basename(d)
            if prefixes and not any(sid.startswith(x) for x in prefixes):
                continue
            prop = json.load(open(mp)).get("breaks_property")
            if prop:
                jobs.append((sid, d + "/patch.diff", [prop]))
    else:
        d = sys.argv[2]; names = sys.argv[3:]
        for pp in sorted(glob.glob(d + "/*/patch.diff")):
            nm = os.path.basename(os.path.dirname(pp))
            if names and nm not in names:
                continue
            jobs.append((nm, pp, CLAIMED))
    q = queue.Queue()
    for j in jobs:
        q.put(j)
    lock = threading.Lock(); bad = []
    def worker(wt):
        while True:
            try:
                sid, patch, props = q.get_nowait()
            except queue.Empty:
                return
            res, err = run(wt, patch, props)
            with lock:
                if err:
                    print(sid, err); bad.append(sid)
                elif mode == "seeds" and not res:
                    print(f"{sid}: MISSED by own check {props[0]}"); bad.append(sid)
                elif mode != "seeds" and res:
                    print(f"{sid}: ALARM {res}"); bad.append(sid)
                sys.stdout.flush()
    ts = [threading.Thread(target=worker, args=(w,)) for w in WTS]
    [t.start() for t in ts]; [t.join() for t in ts]
    print(f"{mode}: jobs={len(jobs)} {'missed' if mode == 'seeds' else 'alarms'}={len(bad)} {sorted(bad)}")
main()
