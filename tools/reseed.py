#!/usr/bin/env python3
"""Re-runs all quick checks against every confirmed seed in /verif/seeded (patch applied to the repo, restored
afterwards) and refreshes meta.json's "checks_that_report_it" / "detected_by_own_property_check". The confirmation
(suite passes, demonstration fails with / passes without the patch) is not repeated — tools/validate_seeds.py did it.
usage: reseed.py [prefix ...]   env: SEED_REPO (/repo), SEED_BIN (/verif/bin/biocheck), SEED_TAG"""
import json, os, re, shutil, subprocess, sys, glob, concurrent.futures as cf
ENV = dict(os.environ, GOFLAGS="-mod=mod", GOPROXY="off", GOSUMDB="off", GOTOOLCHAIN="local")
REPO = os.environ.get("SEED_REPO", "/repo"); BIN = os.environ.get("SEED_BIN", "/verif/bin/biocheck"); TAG = os.environ.get("SEED_TAG", "rs")
CLAIMED = [json.loads(l)["id"] for l in open("/verif/properties.jsonl") if json.loads(l)["id"] != "C10"]
def sh(cmd):
    p = subprocess.run(cmd, shell=True, env=ENV, capture_output=True, text=True, timeout=900)
    return p.returncode, p.stdout + p.stderr
for p in CLAIMED:
    os.makedirs(f"/tmp/{TAG}-verif-{p}/evidence", exist_ok=True)
    shutil.copy("/verif/KNOWN_FINDINGS.txt", f"/tmp/{TAG}-verif-{p}/KNOWN_FINDINGS.txt")
prefixes = sys.argv[1:]
n = own = anyc = 0
for mp in sorted(glob.glob("/verif/seeded/*/meta.json")):
    d = os.path.dirname(mp); sid = os.path.basename(d)
    if prefixes and not any(sid.startswith(x) for x in prefixes):
        continue
    meta = json.load(open(mp)); prop = meta.get("breaks_property")
    if not prop:
        continue
    rc, out = sh(f"git -C {REPO} apply {d}/patch.diff")
    if rc != 0:
        print(sid, "PATCH DOES NOT APPLY", out[:200]); sh(f"git -C {REPO} checkout -- . && git -C {REPO} clean -fdq"); continue
    def one(p):
        r, o = sh(f"{BIN} -property {p} -tier quick -dir {REPO} -verif /tmp/{TAG}-verif-{p}")
        return p, r, sorted(set(re.findall(r"^\s+(?:violated|undecided) ([A-Za-z0-9<>=\-]+)/", o, re.M)))
    caught = {}
    with cf.ThreadPoolExecutor(max_workers=int(os.environ.get("SEED_WORKERS", "14"))) as ex:
        for p, r, rules in ex.map(one, CLAIMED):
            if r != 0:
                caught[p] = rules
    sh(f"git -C {REPO} checkout -- . && git -C {REPO} clean -fdq")
    n += 1; own += prop in caught; anyc += bool(caught)
    meta["checks_that_report_it"] = caught; meta["detected_by_own_property_check"] = prop in caught
    json.dump(meta, open(mp, "w"), indent=1)
    if prop not in caught:
        print(f"{sid}: MISSED by own check {prop}; reported by {caught}")
for p in CLAIMED:
    shutil.rmtree(f"/tmp/{TAG}-verif-{p}", ignore_errors=True)
print(f"seeds={n} caught_by_own_check={own} caught_by_some_check={anyc}")
