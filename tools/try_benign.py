#!/usr/bin/env python3
"""Applies each behaviour-preserving patch (dirs given as arguments, each with patch.diff) to /repo, runs all quick
checks in parallel, restores /repo, and prints every alarm (each one is a false alarm to triage)."""
import json, os, re, shutil, subprocess, sys, glob, concurrent.futures as cf
ENV = dict(os.environ, GOFLAGS="-mod=mod", GOPROXY="off", GOSUMDB="off", GOTOOLCHAIN="local")
REPO = os.environ.get("BENIGN_REPO", "/repo")
BIN = os.environ.get("BENIGN_BIN", "/verif/bin/biocheck")
TAG = os.environ.get("BENIGN_TAG", "bn")
CLAIMED = [json.loads(l)["id"] for l in open("/verif/properties.jsonl") if json.loads(l)["id"] != "C10"]
def sh(cmd, cwd=None):
    p = subprocess.run(cmd, shell=True, cwd=cwd, env=ENV, capture_output=True, text=True, timeout=900)
    return p.returncode, p.stdout + p.stderr
total = alarms = 0
for d in sys.argv[1:]:
    for pd in sorted(glob.glob(d + "/*/patch.diff")) + sorted(glob.glob(d + "/patch.diff")):
        total += 1
        rc, out = sh(f"git -C {REPO} apply {pd}")
        if rc != 0:
            print(pd, "does not apply"); continue
        if os.environ.get("BENIGN_SKIP_SUITE"):
            rc = 0
        else:
            rc, out = sh("go build ./... && go test -vet=off -count=1 ./...", cwd=REPO)
        suite = rc == 0
        def one(p):
            vd = f"/tmp/{TAG}-verif-{p}"
            os.makedirs(vd + "/evidence", exist_ok=True)
            shutil.copy("/verif/KNOWN_FINDINGS.txt", vd + "/KNOWN_FINDINGS.txt")
            r, o = sh(f"{BIN} -property {p} -tier quick -dir {REPO} -verif {vd}")
            lines = re.findall(r"^\s+((?:violated|undecided) .*)$", o, re.M)
            return p, r, lines
        res = []
        with cf.ThreadPoolExecutor(max_workers=12) as ex:
            res = list(ex.map(one, CLAIMED))
        sh(f"git -C {REPO} checkout -- . && git -C {REPO} clean -fdq")
        bad = [(p, l) for p, r, l in res if r != 0]
        if bad:
            alarms += 1
        print(f"{pd}: suite_passes={suite} alarms={len(bad)}")
        for p, lines in bad:
            for l in lines[:4]:
                print(f"    {p}: {l[:300]}")
for p in CLAIMED:
    shutil.rmtree(f"/tmp/{TAG}-verif-{p}", ignore_errors=True)
print(f"patches={total} with_alarms={alarms}")
