import json, os, re, subprocess
props={}
for l in open('/verif/properties.jsonl'):
    d=json.loads(l); props[d['id']]=d
ids=[i for i in sorted(props) if i!='C10']
tmpl=open('/tmp/seed2-out/C01/prompt.txt').read()
# split template around property-specific sections
def first_lines(path,n=3):
    try:
        t=open(path).read()
    except: return ''
    t=re.sub(r'\s+',' ',t)
    return t[:330]
for pid in ids:
    d=props[pid]
    wt=f'/tmp/wt9/{pid}'; out=f'/tmp/seed9-out/{pid}'
    os.makedirs(out,exist_ok=True)
    if not os.path.isdir(wt):
        os.makedirs('/tmp/wt9',exist_ok=True)
        subprocess.run(['git','-C','/repo','worktree','add','--detach',wt,'HEAD'],check=True,capture_output=True)
    tried=[]
    import glob
    for mp in sorted(glob.glob(f'/verif/seeded/*{pid}-m*/meta.json')):
        m=json.load(open(mp))
        n=re.sub(r'\s+',' ',m.get('needs_to_manifest',''))[:300]
        tried.append(f"- {m['id']} — {n}")
    p=f'''You are helping test a verification framework by producing realistic, subtle BUGS ("seeded faults") for a small Go bioinformatics library (fluhus/biostuff). You get one semantic property of the library and your own scratch git worktree of the library. Your job: produce up to THREE independent source changes to the library, each of which BREAKS the property below while the library still compiles and its existing test suite still passes, and for each a demonstration that fails with the change and passes without it.

## The property ({pid})
Title: {d.get('title','')}
Statement: {d.get('statement','')}
Quantified over: {d['quantifier']['text']}
Code the property is anchored in: {', '.join(d['anchors']['files'])}

## Your worktree
{wt}  (a detached git worktree; work ONLY there and in your output directory {out}; never touch /repo or /verif, do not read /verif, do not use `git stash`).
Every shell command needs this environment (no network exists; nothing can be downloaded):
  export GOFLAGS=-mod=mod GOPROXY=off GOSUMDB=off GOTOOLCHAIN=local
Existing test suite (must still pass with each change applied):  cd {wt} && go build ./... && go test -vet=off -count=1 ./...

## What kind of change
Each change should look like something a developer could plausibly commit (a refactor that goes slightly wrong, an "optimisation", an off-by-one, a dropped check, a swapped argument, a copy-paste slip, a shortcut, two sites that each look fine alone but disagree). Prefer changes that need something SPECIFIC to manifest — an unusual input, a particular byte value or length, a particular way the stream is chunked, a fault at a particular point, stopping an iterator at a particular position, a multi-step sequence of operations, a rarely used API entry point — rather than ones that any ordinary use would expose at once. Do NOT edit or delete existing tests. Do not add build tags. Keep each change small (a few lines, at most ~25). Make the three changes different in kind and, if possible, in different functions/files among the anchored code (helpers the anchored code calls count too). If you cannot find three good ones, deliver fewer.

## Already tried by earlier testers (do NOT repeat these or near-variants; find different mechanisms, different functions, different clauses of the property)
{chr(10).join(tried)}

Aim for changes of a different KIND than the above. Ideas: a change in a different function or file than any of the above; a restructuring (loop rewritten, helper extracted, state variable introduced, switch reordered, early return added, variable reused) that is ALMOST equivalent but differs on one rare path or value; a change of a type (width, signedness), of a comparison operator at a boundary, of evaluation order, of an initial value, of which variable is captured/aliased/copied; a changed default or constant; a resource handled on one path but not another; an error swallowed, replaced or reported at the wrong time only on a rare path. Each change must still break THIS property (say which clause).

## Deliverables, per change k = 1,2,3, in {out}/m<k>/
- patch.diff : output of `git -C {wt} diff` for that change alone (relative to the clean worktree HEAD; it must apply with `git apply` to a clean checkout).
- demo_test.go (or demo/main.go) : a Go test (package <pkg>_test or an external test in the package directory it must be copied to — say where in the note) or a small program using only the library's public API (internal API allowed if unavoidable) that FAILS with the change and PASSES without it. Say exactly how to run it. Put in the first line of demo_test.go a comment `// copy to: <dir relative to repo root>`.
- note.md : 5-10 lines: a one-line title, which clause of the property breaks, what is needed for it to manifest, the commands you ran and their results (suite passes with change: yes/no; demo fails with change: yes/no; demo passes without: yes/no).
After finishing each change, restore the worktree (`git -C {wt} checkout -- . && git -C {wt} clean -fdq`) so that the patches are independent of each other. Verify all three claims yourself for every change before delivering it. At the end reply with a short summary listing the changes delivered.'''
    open(f'{out}/prompt.txt','w').write(p)
print('ok', len(ids))
