import os, subprocess, re
areas={
 'B45':('align (align.go, global.go, local.go, levenshtein.go; not the generated matrix tables) and formats/smtext','HELPERS'),
 'B46':('align (align.go, global.go, local.go, levenshtein.go; not the generated matrix tables) and formats/smtext','CONTROL'),
 'B47':('sequtil (all non-test files), mash and trie','HELPERS'),
 'B48':('sequtil (all non-test files), mash and trie','CONTROL'),
 'B49':('formats/newick, formats/fasta, formats/fastq','HELPERS'),
 'B50':('formats/newick, formats/fasta, formats/fastq','CONTROL'),
 'B51':('formats/sam, formats/bed, regions','HELPERS'),
 'B52':('formats/sam, formats/bed, regions','CONTROL'),
}
styles={
 'STATE':'FOCUS of this batch: how state and data are held. At least six of the eight changes must change the representation of working state WITHOUT changing behaviour: several local variables gathered into a small unexported struct (or the reverse); a local variable turned into a field of an existing unexported struct or a method receiver (or the reverse); a value parameter turned into a pointer parameter of an unexported helper, or a result turned into an out-parameter (or the reverse); a bool flag replaced by a small unexported enum type / named constants (or the reverse); a slice used as a stack wrapped in a tiny unexported type with push/pop/top methods; a closure replaced by a method value or a named function with explicit parameters; named result parameters introduced or removed; a map literal / table moved between a package-level var and an init() function; an array replaced by a slice of the same length where nothing observes the difference.',
 'MIXED':'FOCUS of this batch: each change should COMBINE two or three small refactorings in the same function (for example: extract a helper AND turn an if-chain into a switch AND introduce a result variable; or inline a helper AND restructure the loop around it; or split a function into two stages AND rename the intermediate values AND reorder independent statements). Spread the eight changes over different functions; prefer the functions with the most logic in them (parsers, writers, table fills, tracebacks, iterators).',
 'ERRORS':'FOCUS of this batch: the plumbing of errors, resources and iterators. At least six of the eight changes must restructure how errors, cleanup or iteration are written WITHOUT changing what is reported or when: an error variable assigned in branches and returned/yielded once <-> several returns; `if err := f(); err != nil` <-> separate statement; a small unexported helper that builds an error value or that yields an item and reports whether to go on; `defer x.Close()` <-> `defer func() { x.Close() }()`; a named result <-> an unnamed one; switch on the error <-> if chain; `errors.Is(err, io.EOF)` <-> `err == io.EOF` ONLY where the error can not be wrapped; panic message built by a helper; a range-over-func loop <-> an explicit call of the iterator with a closure; a closure variable <-> a parameter; a loop `for { ...; if done { break } }` <-> a loop with a condition. Where the area has no errors (pure functions), restructure panics, bounds handling and result building instead.',
 'HELPERS':'FOCUS of this batch: moving code between functions. At least six of the eight changes must extract a few statements or an expression into a new unexported helper function or method (passing what it needs as parameters, by value or by pointer, returning one or two results), or inline an existing small unexported helper into its caller(s) and delete it, or split one function into two stages, or merge two tiny helpers. The remaining ones may introduce/remove local variables or move declarations between files.',
 'CONTROL':'FOCUS of this batch: control-flow and data-flow restructuring inside functions. At least six of the eight changes must restructure loops (counted <-> range <-> range-over-int <-> while-style with break; forward loop with mirrored index <-> backward loop; loop flag <-> break/continue), branch structure (if-chain <-> switch <-> tagless switch; early return/continue <-> else nesting; merged <-> split conditions with && and ||; De Morgan rewrites; swapped if/else arms with negated condition), or data flow (result variable assigned in branches and returned once <-> several returns; repeated expression <-> local variable; compound assignment <-> plain; reordering of independent statements).',
}
import glob
for b,(area,style) in areas.items():
    wt=f'/tmp/wtb8/{b}'; out=f'/tmp/benign8-out/{b}'
    os.makedirs(out,exist_ok=True); os.makedirs('/tmp/wtb8',exist_ok=True)
    if not os.path.isdir(wt):
        subprocess.run(['git','-C','/repo','worktree','add','--detach',wt,'HEAD'],check=True,capture_output=True)
    tried=[]
    for np in sorted(glob.glob('/verif/benign/B*/note.md')):
        t=re.sub(r'\s+',' ',open(np).read())[:160]
        key=area.split(' ')[0].split(',')[0]
        words=[w.strip(',()') for w in area.replace('(',' ').split()]
        if any(w and ('/' in w or w in ('align','sequtil','mash','regions','trie')) and w.split('/')[-1] in t for w in words):
            tried.append(f'- {t}')
    tried=tried[:40]
    p=f'''You are helping test a static-analysis framework for FALSE ALARMS. You get a scratch git worktree of a small Go bioinformatics library (fluhus/biostuff). Produce EIGHT independent, strictly BEHAVIOUR-PRESERVING refactorings of the library source — the kind of harmless change a maintainer commits all the time — so that we can check the analysers stay silent on them.

## Your worktree
{wt}  (a detached git worktree; work ONLY there and in your output directory {out}; never touch /repo or /verif, do not read /verif, do not use `git stash`).
Every shell command needs this environment (no network exists):
  export GOFLAGS=-mod=mod GOPROXY=off GOSUMDB=off GOTOOLCHAIN=local
Test suite (must pass with each change):  cd {wt} && go build ./... && go vet ./... && go test -vet=off -count=1 ./...

## Area to refactor
{area}

## Focus
{styles[style]}

## What counts
Each change must keep the observable behaviour of every exported function EXACTLY the same for every input (same results, same errors in the same situations, same panics in the same situations, same bytes written, same items yielded in the same order, no new aliasing of memory visible to callers). Make the eight changes DIFFERENT in kind and spread over different functions. At least FIVE of the eight must be STRUCTURAL rather than cosmetic: extract a few lines into an unexported helper function (or method) or inline a tiny helper; restructure a loop (`for i := 0; i < n; i++` <-> `for i := range n` <-> `for i, x := range xs`, while-style <-> counted, loop with break <-> loop condition); convert an if/else-if chain to a switch or vice versa; replace early returns by else branches or the reverse; merge or split compound conditions (`a || b`, `a && b`) with identical effect; introduce a local variable for a repeated expression or remove one; reorder independent statements or independent checks that cannot both fire differently; replace a named constant by an equal expression; swap operand order of comparisons (`n < 3` -> `3 > n`); replace `x -= k` by `x = x - k`; use a different but equivalent standard-library call ONLY where results are identical for all inputs (e.g. `strings.TrimSuffix(TrimSuffix(s,"\\n"),"\\r")` must stay exactly equivalent; `bytes.Equal` vs loop; `slices.Clone` vs `append([]byte(nil), x...)`); change an error MESSAGE text (not when/whether it is reported); move a function to another file of the same package; rename unexported identifiers (functions, fields, types, variables). Do NOT change exported API, do NOT edit tests, do NOT change any behaviour even in corner cases (empty input, nil, negative or huge values, malformed input). If you are not sure a change is behaviour-preserving, do not deliver it.

## Already delivered by an earlier tester in this area (do something different in kind or place)
{chr(10).join(tried)}

## Deliverables, per change k = 1..8, in {out}/r<k>/
- patch.diff : `git -C {wt} diff` for that change alone (relative to the clean HEAD; must apply with `git apply` to a clean checkout).
- note.md : 2-4 lines: what was changed, why it preserves behaviour for every input, and the result of the build/vet/test commands.
After each change restore the worktree (`git -C {wt} checkout -- . && git -C {wt} clean -fdq`). At the end reply with a one-line-per-change summary.'''
    open(f'{out}/prompt.txt','w').write(p)
print('ok')
