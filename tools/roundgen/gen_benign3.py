import os, subprocess, re
areas={
 'B9':'align (align.go, global.go, local.go, levenshtein.go; not the generated matrix tables)',
 'B10':'sequtil (sequtil.go, amino.go and the other non-test files) and mash',
 'B11':'formats/newick (newick.go, traverse.go) and formats/smtext',
 'B12':'regions, trie, and the iterator files of the formats: formats/fasta/iter.go, formats/fastq/iter.go, formats/sam/iter.go, formats/bed/iter.go (plus the reader types they use)',
}
prev={'B9':['B4','B6'],'B10':['B3','B7'],'B11':['B1','B8','B4','B6'],'B12':['B3','B7','B1','B2','B5','B8']}
for b,area in areas.items():
    wt=f'/tmp/wtb/{b}'; out=f'/tmp/benign-out/{b}'
    os.makedirs(out,exist_ok=True); os.makedirs('/tmp/wtb',exist_ok=True)
    if not os.path.isdir(wt):
        subprocess.run(['git','-C','/repo','worktree','add','--detach',wt,'HEAD'],check=True,capture_output=True)
    tried=[]
    for pb in prev[b]:
        for k in range(1,9):
            try:
                t=re.sub(r'\s+',' ',open(f'/verif/benign/{pb}-r{k}/note.md').read())[:200]
                tried.append(f'- {t}')
            except: pass
    p=f'''You are helping test a static-analysis framework for FALSE ALARMS. You get a scratch git worktree of a small Go bioinformatics library (fluhus/biostuff). Produce EIGHT independent, strictly BEHAVIOUR-PRESERVING refactorings of the library source — the kind of harmless change a maintainer commits all the time — so that we can check the analysers stay silent on them.

## Your worktree
{wt}  (a detached git worktree; work ONLY there and in your output directory {out}; never touch /repo or /verif, do not read /verif, do not use `git stash`).
Every shell command needs this environment (no network exists):
  export GOFLAGS=-mod=mod GOPROXY=off GOSUMDB=off GOTOOLCHAIN=local
Test suite (must pass with each change):  cd {wt} && go build ./... && go vet ./... && go test -vet=off -count=1 ./...

## Area to refactor
{area}

## What counts
Each change must keep the observable behaviour of every exported function EXACTLY the same for every input (same results, same errors in the same situations, same panics in the same situations, same bytes written, same items yielded in the same order, no new aliasing of memory visible to callers). Make the eight changes DIFFERENT in kind and spread over different functions. At least FIVE of the eight must be STRUCTURAL rather than cosmetic: extract a few lines into an unexported helper function (or method) or inline a tiny helper; restructure a loop (`for i := 0; i < n; i++` <-> `for i := range n` <-> `for i, x := range xs`, while-style <-> counted, loop with break <-> loop condition); convert an if/else-if chain to a switch or vice versa; replace early returns by else branches or the reverse; merge or split compound conditions (`a || b`, `a && b`) with identical effect; introduce a local variable for a repeated expression or remove one; reorder independent statements or independent checks that cannot both fire differently; replace a named constant by an equal expression; swap operand order of comparisons (`n < 3` -> `3 > n`); replace `x -= k` by `x = x - k`; use a different but equivalent standard-library call ONLY where results are identical for all inputs (e.g. `strings.TrimSuffix(TrimSuffix(s,"\\n"),"\\r")` must stay exactly equivalent; `bytes.Equal` vs loop; `slices.Clone` vs `append([]byte(nil), x...)`); change an error MESSAGE text (not when/whether it is reported); move a function to another file of the same package; rename unexported identifiers (functions, fields, types, variables). Do NOT change exported API, do NOT edit tests, do NOT change any behaviour even in corner cases (empty input, nil, negative or huge values, malformed input). If you are not sure a change is behaviour-preserving, do not deliver it.

## Already delivered by an earlier tester in this area (do something different in kind or place)
{chr(10).join(tried)}

## Deliverables, per change k = 1..8, in {out}/r<k>/
- patch.diff : `git -C {wt} diff` for that change alone (relative to the clean HEAD; must apply with `git apply` to a clean checkout).
- note.md : 2-4 lines: what was changed, why it preserves behaviour for every input, and the result of the build/vet/test commands.
After each change restore the worktree (`git -C {wt} checkout -- . && git -C {wt} clean -fdq`). At the end reply with a one-line-per-change summary.'''
    open(f'{out}/prompt.txt','w').write(p)
print('ok')
